#!/usr/bin/env python3
"""Regenerate /verif/MANIFEST.json from the list of implemented properties (ohv list)."""
import json, subprocess, sys, os
V = '/verif'
props = [json.loads(l) for l in open(f'{V}/properties.jsonl')]
impl = {}
out = subprocess.run([f'{V}/harness/target/checked/ohv', 'list'], capture_output=True, text=True).stdout
for l in out.splitlines():
    i, _, t = l.partition(' ')
    impl[i] = t
notes = json.load(open(f'{V}/manifest_notes.json')) if os.path.exists(f'{V}/manifest_notes.json') else {}
hooks_commits = subprocess.run(['git', '-C', '/repo', 'log', '--format=%H %s'], capture_output=True, text=True).stdout.splitlines()
hook_shas = [l.split()[0] for l in hooks_commits if l.split(' ', 1)[1].startswith('verif hooks')]
checks, na = [], []
for p in props:
    i = p['id']
    if i in impl:
        n = notes.get(i, {})
        checks.append({
            'property_id': i,
            'quick_cmd': f'./check {i} --tier quick',
            'thorough_cmd': f'./check {i} --tier thorough',
            'evidence_file': f'/verif/evidence/{i}.json',
            'replay_cmd_template': f'./check {i} --replay {{path}}',
            'engine': 'ohv',
            'level_claimed': {
                'category': 'exploration',
                'text': n.get('text', 'generated-input search against an explicit oracle; no counterexample among the generated cases (counts and samples in the evidence file)'),
                'design_ref': n.get('design_ref', f'DESIGN.md section 4, {i}'),
            },
            'level_note': n.get('note', 'trusted: the plain Vec model / reference loops of the harness, the isomorphism decision procedure, proptest as tape generator'),
            'technique': n.get('technique', 'property-based testing (proptest-generated choice tapes, explicit oracle, shrinking) + libFuzzer campaign in the thorough tier'),
        })
    else:
        na.append({'property_id': i, 'reason': 'check not built yet (work in progress; the technique applies, see DESIGN.md section 4)'})
m = {
    'version': 1,
    'setup_cmd': './setup.sh',
    'hooks': {
        'guard': 'cargo feature verif-hooks',
        'enable': 'harness feature `hooks` -> open-hypergraphs/verif-hooks (./check builds with --features hooks and falls back to the public API if that does not compile)',
        'baseline_off_cmd': 'cd /repo && cargo test --workspace --no-fail-fast --offline',
        'source_commits': hook_shas,
        'add_only': True,
    },
    'engines': [{
        'name': 'ohv',
        'path': '/verif/harness',
        'serves_properties': sorted(impl.keys()),
        'kind_free_text': 'Rust harness: proptest 1.11 generates and shrinks u32 choice tapes, per-property check functions decode a tape into a case and evaluate an explicit oracle (plain Vec model, isomorphism decision procedure, reference loops); the same check functions are driven by a libFuzzer target in the thorough tier',
    }],
    'checks': checks,
    'notes': 'exit 0 = held on everything explored, 1 = VIOLATION line, 2 = harness/build error (never a verdict). Known findings: /verif/known-findings.txt.',
}
# always present, so that "nothing is unclaimed" is stated rather than implied
m['not_applicable'] = na
json.dump(m, open(f'{V}/MANIFEST.json', 'w'), indent=1)
print('checks:', len(checks), 'not_applicable:', len(na))
