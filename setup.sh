#!/bin/bash
# offline build of the harness (both profiles); the fuzz target is built best-effort
set -u
export CARGO_NET_OFFLINE=true
cd /verif/harness || exit 1
mkdir -p /verif/evidence /verif/replays
cargo build --quiet --profile checked --features hooks || cargo build --quiet --profile checked || exit 1
cargo build --quiet --profile release --features hooks || cargo build --quiet --profile release || exit 1
if [ -d /verif/harness/fuzz ]; then
  ( cd /verif/harness && cargo +nightly fuzz build -s none tape >/dev/null 2>&1 ) || echo "note: fuzz target not built (thorough tier will report fuzz unavailable)"
fi
echo setup ok
