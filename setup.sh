#!/bin/bash
# offline build of the harness (both profiles); the fuzz target is built best-effort
set -u
export CARGO_NET_OFFLINE=true
VERIF=$(cd "$(dirname "$0")" && pwd)
cd $VERIF/harness || exit 1
mkdir -p $VERIF/evidence $VERIF/replays
cargo build --quiet --profile checked --features hooks || cargo build --quiet --profile checked || exit 1
cargo build --quiet --profile release --features hooks || cargo build --quiet --profile release || exit 1
if [ -d $VERIF/harness/fuzz ]; then
  ( cd $VERIF/harness && cargo +nightly fuzz build -s none tape >/dev/null 2>&1 ) || echo "note: fuzz target not built (thorough tier will report fuzz unavailable)"
fi
echo setup ok
