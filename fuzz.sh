#!/bin/bash
# coverage-guided campaign for one property (thorough tier).  Prints one summary line as its last
# line of stdout.  A crash leaves a tape in harness/target/fuzz-<ID>.tape which ./check hands to the
# engine (OHV_EXTRA_TAPE) for re-checking and shrinking; nothing here produces a verdict by itself.
ID=$1
VERIF=$(cd "$(dirname "$0")" && pwd)
H=$VERIF/harness
export CARGO_NET_OFFLINE=true OHV_VERIF_DIR=$VERIF
case "$ID" in
  C03|C05|C10|C12|C13|C14|C19|C20) DEF_RUNS=25000;;
  C02|C09|C11|C16|C18) DEF_RUNS=60000;;
  *) DEF_RUNS=150000;;
esac
RUNS=${OHV_FUZZ_RUNS:-$DEF_RUNS}
JOBS=${OHV_FUZZ_JOBS:-8}
SEED=${VERIF_SEED:-0}; [ "$SEED" = 0 ] && SEED=1
OUT=$H/target/fuzz-$ID.tape
rm -f $OUT
( cd $H && cargo +nightly fuzz build -s none tape ) >$H/target/fuzz-build.log 2>&1 || { echo "fuzz: unavailable (fuzz target does not build)"; exit 0; }
BIN=$H/fuzz/target/x86_64-unknown-linux-gnu/release/tape
[ -x $BIN ] || { echo "fuzz: unavailable (no fuzz binary)"; exit 0; }
W=$H/target/fuzz-work-$ID
rm -rf $W; mkdir -p $W/corpus $W/artifacts
$H/target/checked/ohv export-seeds $ID $W/corpus 64 >/dev/null 2>&1
MAXLEN=$(( $($H/target/checked/ohv max-tape $ID 2>/dev/null || echo 600) * 2 ))
cd $W
OHV_PROP=$ID OHV_FUZZ_OUT=$OUT timeout 900 $BIN corpus -runs=$RUNS -seed=$SEED -len_control=0 -max_len=$MAXLEN \
   -max_total_time=300 -jobs=$JOBS -workers=$JOBS -artifact_prefix=$W/artifacts/ -print_final_stats=1 >$W/driver.log 2>&1
rc=$?
execs=$(grep -h "stat::number_of_executed_units" fuzz-*.log 2>/dev/null | awk '{s+=$2} END {print s+0}')
cov=$(grep -h -o "cov: [0-9]*" fuzz-*.log 2>/dev/null | awk '{if ($2>m) m=$2} END {print m+0}')
units=$(ls corpus | wc -l)
crashes=$(ls artifacts 2>/dev/null | wc -l)
cd $VERIF
if [ -f $OUT ]; then
  echo "fuzz: libFuzzer executions=$execs max_cov=$cov corpus_units=$units crashes=$crashes (failing tape handed to the engine)"
else
  echo "fuzz: libFuzzer executions=$execs max_cov=$cov corpus_units=$units crashes=$crashes exit=$rc"
  rm -rf $W
fi
