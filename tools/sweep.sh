#!/bin/bash
# silence sweep: every check under several seeds; prints anything that is not a PASS
# usage: tools/sweep.sh <tier> <seed>...
cd "$(dirname "$0")/.."
TIER=$1; shift
# in a `vp run --with-repo` snapshot build against the snapshot of the repository, so that patches
# applied to /repo meanwhile (seed experiments) cannot disturb the sweep
if [ -n "${VP_RUN_REPO:-}" ] && [ "$(pwd)" != /verif ]; then
  sed -i "s#path = \"/repo\"#path = \"$VP_RUN_REPO\"#" harness/Cargo.toml
  echo "sweep builds against $VP_RUN_REPO"
fi
for seed in "$@"; do
  for i in $(seq -w 1 20); do
    out=$(VERIF_SEED=$seed ./check C$i --tier $TIER 2>&1); rc=$?
    if [ $rc -ne 0 ]; then echo "!! seed=$seed C$i exit=$rc"; echo "$out" | tail -8; else echo "$out" | tail -1; fi
  done
done
echo SWEEP-DONE
