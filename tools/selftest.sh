#!/bin/bash
# Sensitivity self-test: every archived change (mutants/*.patch, seeded/*/patch.diff) must be reported by
# the check of the property it breaks, by generated search alone (OHV_NO_CORPUS=1), quick tier.
# Applies each patch to /repo, runs the check, undoes the patch. Not part of the registered commands.
# usage: tools/selftest.sh [ident...]      (default: all)
cd "$(dirname "$0")/.."
VERIF=$(pwd)
REPO=/repo
# in a `vp run --with-repo` snapshot: patch and build against the snapshot of the repository, so the
# self-test can run in the background without touching /repo
if [ -n "${VP_RUN_REPO:-}" ] && [ "$VERIF" != /verif ]; then
  REPO=$VP_RUN_REPO
  sed -i "s#path = \"/repo\"#path = \"$REPO\"#" harness/Cargo.toml
  echo "selftest patches and builds against $REPO"
fi
export OHV_EVIDENCE_DIR=$VERIF/harness/target/evidence-scratch
git -C $REPO diff --quiet || { echo "$REPO has local changes"; exit 2; }
trap 'git -C $REPO checkout -- .' EXIT
declare -A OWNER=( [revert-D1]="C15 C16 C17 C18" [revert-D2]="C17" [revert-D3]="C09" [revert-D4]="C08" [revert-D5]="C19" )
list=()
if [ $# -gt 0 ]; then list=("$@"); else
  for f in mutants/*.patch; do list+=("$(basename $f .patch)"); done
  for d in seeded/*/; do list+=("$(basename $d)"); done
fi
miss=0; total=0
for id in "${list[@]}"; do
  if [ -f mutants/$id.patch ]; then patch=mutants/$id.patch; checks=${OWNER[$id]:-$(cat mutants/$id.owner 2>/dev/null)}
  else patch=seeded/$id/patch.diff; checks=$(python3 -c "import json;m=json.load(open('seeded/$id/meta.json'));print(m.get('reported_by_property') or m['property'])"); fi
  [ -z "$checks" ] && { echo "?? $id: no owning check recorded"; continue; }
  git -C $REPO apply $VERIF/$patch || { echo "?? $id: patch does not apply"; continue; }
  for c in $checks; do
    total=$((total+1))
    out=$(OHV_NO_CORPUS=1 ./check $c --tier ${TIER:-quick} 2>&1); rc=$?
    sub=$(echo "$out" | grep -m1 '^sub_check' | cut -c1-80)
    if [ $rc -eq 1 ]; then echo "ok   $id -> $c ($sub)"; else echo "MISS $id -> $c exit=$rc"; miss=$((miss+1)); fi
  done
  git -C $REPO checkout -- .
done
echo "selftest: $total runs, $miss missed"
[ $miss -eq 0 ]
