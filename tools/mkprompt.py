#!/usr/bin/env python3
# usage: mkprompt.py <suffix>   -> writes /tmp/seed-out/prompt-CNN<suffix>.txt for all 20 properties
import json, sys, glob, os, re
suf = sys.argv[1]
props = [json.loads(l) for l in open('/verif/properties.jsonl')]
tmpl_head = open(os.path.join(os.path.dirname(os.path.abspath(__file__)), 'seed-prompt-template.txt')).read()
head_end = tmpl_head.index('The property to break:')
tail_start = tmpl_head.index('-----\n\nRequirements for the change:')
for p in props:
    pid = p['id']; ident = pid + suf
    prev = sorted(d for d in glob.glob(f'/verif/seeded/{pid}*') if os.path.isdir(d))
    used = []
    for k, d in enumerate(prev, 1):
        try:
            m = json.load(open(d + '/meta.json'))
            used.append(f"  already used ({k}): {m.get('summary')}")
        except Exception:
            pass
    head = tmpl_head[:head_end].replace('C11e', ident)
    tail = tmpl_head[tail_start:].replace('C11e', ident).replace('"property": "C11"', f'"property": "{pid}"')
    tail = tail.replace("then `git stash` only the src changes / or revert them temporarily and run it again on the original code (must pass), then restore your change.",
        "then revert the src change temporarily with `git diff -- src > /tmp/seed-out/%s/patch.diff; git checkout -- src`, run it again on the original code (must pass), then restore your change with `git apply /tmp/seed-out/%s/patch.diff`. NEVER use `git stash`: the stash is shared between all worktrees of this repository and other engineers are working in sibling worktrees right now." % (ident, ident))
    body = f"The property to break:\n-----\nProperty {pid}: {p['title']}\n\nStatement: {p['statement']}\n\nQuantified over: {p['quantifier']['text']}\n\n\n"
    n = len(used)
    body += (f"IMPORTANT - diversity and subtlety: {n} other engineers have already seeded the changes summarised below for this same property, and ALL were detected by a randomized, model-based test suite (many small random inputs - including empty, degenerate, repeated, moderately large structured and a few huge structured ones - compared with an independent reference implementation up to isomorphism, through every public entry point incl. trait impls, operator sugar and deprecated aliases, strict and lax, on two array backends). Yours must be DIFFERENT IN KIND from all of them. First list the separate clauses of the property statement AND the separate public entry points / code paths through which each clause can be exercised; pick a (clause, code path) combination that NONE of the earlier seeds attacked - ideally in a source file none of them touched. No 'fast path for a special shape', no scale-only (stack overflow / slowness) defects. Good candidates: a wrong general formula that agrees with the right one unless two independent sizes / labels / orders differ in a specific way; a helper shared by several public functions that is wrong only for the way ONE of them calls it; state that leaks between two successive calls on the same object; a mistake that depends on hyperedge or node NUMBERING ORDER; wrong behaviour only when the SAME node or label occurs in two different roles at once; wrong result only for a specific arity pattern across several hyperedges; an error path that leaves something half-updated. It must still be a plausible maintainer mistake, still pass the whole existing suite, and still genuinely violate the quoted property (make sure your demo asserts something the property really promises, not an unspecified detail).\n")
    body += "\n".join(used) + "\n\n"
    open(f'/tmp/seed-out/prompt-{ident}.txt', 'w').write(head + body + tail)
    print(ident, n)
