#!/bin/bash
# false-alarm experiment: apply each archived property-PRESERVING change (benign/<id>/patch.diff:
# behaviour differs observably, no property is violated) to /repo, run all 20 checks, undo.
# Every line must read "== Cnn exit=0".  Not a registered check; writes no committed evidence.
cd /verif
for d in benign/*/; do
  k=$(basename $d)
  echo "#### $k"
  tools/try-seed.sh /verif/benign/$k/patch.diff C01 C02 C03 C04 C05 C06 C07 C08 C09 C10 C11 C12 C13 C14 C15 C16 C17 C18 C19 C20 | grep -E '^== |VIOLATION|HARNESS'
done
