#!/bin/bash
# apply a patch to /repo, run the given checks (quick tier unless TIER is set), undo the patch.
# usage: try-seed.sh <patch-file> <ID>...
P=$1; shift
cd /repo && git diff --quiet || { echo "/repo has local changes"; exit 2; }
git -C /repo apply "$P" || { echo "PATCH DOES NOT APPLY"; exit 2; }
trap 'git -C /repo checkout -- . ' EXIT
cd /verif
export OHV_EVIDENCE_DIR=/verif/harness/target/evidence-scratch
for id in "$@"; do
  out=$(./check $id --tier ${TIER:-quick} 2>&1); rc=$?
  echo "== $id exit=$rc"; echo "$out" | grep -E "^(VIOLATION|PASS|HARNESS|sub_check|message|KNOWN)" | cut -c1-400
done
