#!/bin/bash
# confirm a seeded change in its scratch worktree: suite passes with it, demo fails with it, demo passes without it.
# usage: confirm-seed.sh <ident>      (worktree /tmp/seed-<ident>, deliverables /tmp/seed-out/<ident>)
ID=$1; WT=/tmp/seed-$ID; OUT=/tmp/seed-out/$ID
export CARGO_TARGET_DIR=$WT/target CARGO_NET_OFFLINE=true
cd $WT || exit 2
FEAT=""
grep -q '"serde"\|features serde' $OUT/meta.json 2>/dev/null && grep -q 'serde' $OUT/seed_demo.rs && FEAT="--features serde"
git checkout -q -- src; git apply $OUT/patch.diff || { echo "PATCH DOES NOT APPLY"; exit 2; }
cp $OUT/seed_demo.rs tests/seed_demo.rs
mv tests/seed_demo.rs /tmp/seed-out/$ID.demo.tmp
suite=$(cargo test --workspace --no-fail-fast --offline 2>&1 | grep -E "^test result" | tr '\n' ' ')
mv /tmp/seed-out/$ID.demo.tmp tests/seed_demo.rs
with=$(cargo test --offline $FEAT --test seed_demo 2>&1 | grep -E "^test result" | tr '\n' ' ')
git checkout -q -- src
without=$(cargo test --offline $FEAT --test seed_demo 2>&1 | grep -E "^test result" | tr '\n' ' ')
git apply $OUT/patch.diff
echo "suite-with-change: $suite"
echo "demo-with-change: $with"
echo "demo-without-change: $without"
