#!/bin/bash
# re-run the checks against an archived seed and update the detection fields of its meta.json
ID=$1; shift
res=$(OHV_NO_CORPUS=1 /verif/tools/try-seed.sh /verif/seeded/$ID/patch.diff "$@" 2>&1)
res2=$(/verif/tools/try-seed.sh /verif/seeded/$ID/patch.diff "$@" 2>&1 | grep -E "^== ")
python3 - "$ID" "$res" "$res2" "$*" <<'PY'
import json, sys
ident, res, res2, checks = sys.argv[1:5]
p=f'/verif/seeded/{ident}/meta.json'
m=json.load(open(p))
first = m.get('detection_generated_search_only')
if 'detection_history' not in m:
    m['detection_history'] = [{'when': 'first run of the checks as they were when the seed arrived', 'result': first}]
m['checks_run'] = checks.split()
m['detection_generated_search_only'] = [l for l in res.splitlines() if l.startswith('== ') or l.startswith('sub_check') or l.startswith('message')]
m['detection_with_regression_cases'] = res2.splitlines()
json.dump(m, open(p,'w'), indent=1)
print(ident, [l for l in res.splitlines() if l.startswith('== ')])
PY
