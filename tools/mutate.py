#!/usr/bin/env python3
"""Automated mutation run (sensitivity experiment, not a registered check).

For every mutation site in the library sources: apply one small syntactic mutation, see whether
the crate still compiles and its own test suite still passes ("survives the suite"), and if so
whether the property checks report it.  Meant to run in a `vp run --with-repo` snapshot:

    vp run --with-repo --timeout 8h -- python3 tools/mutate.py [--files REGEX] [--max N] [--shard i/n]

It mutates $VP_RUN_REPO (never /repo), builds the harness of the snapshot against it, and prints one
JSON line per mutant plus a summary.  Surviving-and-undetected mutants are the interesting output:
each is either equivalent with respect to the properties or a gap in the checks.
"""
import json, os, re, subprocess, sys, time, hashlib

REPO = os.environ.get('VP_RUN_REPO', '')
VERIF = os.path.abspath(os.path.join(os.path.dirname(__file__), '..'))
if not REPO or VERIF == '/verif':
    print('refusing to run outside a vp run --with-repo snapshot'); sys.exit(2)

ENV = dict(os.environ, CARGO_NET_OFFLINE='true', OHV_CASE_SCALE=os.environ.get('OHV_CASE_SCALE', '0.25'),
           OHV_EVIDENCE_DIR=os.path.join(VERIF, 'harness/target/evidence-scratch'),
           CARGO_TARGET_DIR=os.path.join(REPO, 'target'))
ENV_H = dict(ENV); ENV_H.pop('CARGO_TARGET_DIR')

FILE_CHECKS = [
    (r'array/', 'C07 C06 C15 C01'), (r'finite_function/', 'C06 C01 C08 C12'), (r'indexed_coproduct/', 'C08 C12 C15 C18 C14'),
    (r'operations\.rs', 'C08 C12 C05'), (r'semifinite/', 'C06 C08'), (r'category/', 'C04'),
    (r'strict/open_hypergraph', 'C01 C02 C03 C04 C05 C17'), (r'strict/hypergraph/object', 'C05 C02 C17 C01'),
    (r'strict/hypergraph/arrow', 'C18'), (r'strict/hypergraph/acyclic', 'C17'), (r'strict/graph\.rs', 'C15 C16 C17 C18 C20'),
    (r'strict/layer\.rs', 'C15 C16'), (r'strict/eval\.rs', 'C16 C14 C20'), (r'strict/functor/optic', 'C14 C05'),
    (r'strict/functor/', 'C12 C13'), (r'lax/hypergraph\.rs', 'C09 C11 C10 C02'), (r'lax/open_hypergraph\.rs', 'C10 C11 C09 C04'),
    (r'lax/category\.rs', 'C10 C04 C02 C01'), (r'lax/mut_category\.rs', 'C10 C02 C13'), (r'lax/functor/', 'C13 C12 C19'),
    (r'lax/optic\.rs', 'C14'), (r'lax/var/', 'C19'),
]
ALL = [f'C{i:02d}' for i in range(1, 21)]

# (regex, replacement, name): applied to one occurrence on one line
OPS = [
    (r'>=', '>', 'ge->gt'), (r'<=', '<', 'le->lt'), (r'(?<![=!<>-])>(?![=>])', '>=', 'gt->ge'), (r'(?<![=!<>])<(?![=<])', '<=', 'lt->le'),
    (r'==', '!=', 'eq->ne'), (r'!=', '==', 'ne->eq'), (r'&&', '||', 'and->or'), (r'\|\|', '&&', 'or->and'),
    (r' \+ ', ' - ', 'plus->minus'), (r' - ', ' + ', 'minus->plus'),
    (r'K::I::one\(\)', 'K::I::zero()', 'one->zero'), (r'K::I::zero\(\)', 'K::I::one()', 'zero->one'),
    (r'\binj0\b', 'inj1', 'inj0->inj1'), (r'\binj1\b', 'inj0', 'inj1->inj0'), (r'\binject0\b', 'inject1', 'inject0->inject1'), (r'\binject1\b', 'inject0', 'inject1->inject0'),
    (r'\.sources\b', '.targets', 'sources->targets'), (r'\.targets\b', '.sources', 'targets->sources'),
    (r'\.s\b', '.t', '.s->.t'), (r'\.t\b', '.s', '.t->.s'),
    (r'\.source\(\)', '.target()', 'source()->target()'), (r'\.target\(\)', '.source()', 'target()->source()'),
    (r'\btrue\b', 'false', 'true->false'), (r'\bfalse\b', 'true', 'false->true'),
    (r'\.is_empty\(\)', '.is_empty() == false', 'is_empty->not'), (r'\.quotient\.0\b', '.quotient.1', 'q0->q1'), (r'\.quotient\.1\b', '.quotient.0', 'q1->q0'),
    (r'\b0\b', '1', '0->1'), (r'\b1\b', '0', '1->0'), (r'\bSome\(true\)', 'Some(false)', 'sometrue'),
    (r'\.len\(\)', '.len() + 1', 'len+1'),
]

def sh(cmd, cwd, env, timeout):
    # own process group, killed as a whole on timeout: a mutant that makes a test binary loop
    # forever must not keep burning cores for the rest of the run
    import signal
    p = subprocess.Popen(cmd, shell=True, cwd=cwd, env=env, stdout=subprocess.PIPE, stderr=subprocess.STDOUT, text=True, start_new_session=True)
    try:
        out, _ = p.communicate(timeout=timeout)
        return p.returncode, out
    except subprocess.TimeoutExpired:
        try:
            os.killpg(p.pid, signal.SIGKILL)
        except ProcessLookupError:
            pass
        p.communicate()
        return 124, 'timeout'

def body_lines(path):
    """(line number, text) of lines that look like executable code (not comments, attributes, signatures, tests)."""
    out = []
    in_test = False
    for i, l in enumerate(open(path).read().split('\n')):
        t = l.strip()
        if t.startswith('#[cfg(test)]') or t.startswith('mod test'):
            in_test = True
        if in_test:
            continue
        if not t or t.startswith('//') or t.startswith('#') or t.startswith('use ') or t.startswith('pub use') or t.startswith('///'):
            continue
        if re.match(r'^(pub(\(crate\))? )?(fn|impl|trait|struct|enum|type|mod|where)\b', t) or t.startswith('K::') and t.endswith(','):
            continue
        if re.search(r'\b(where|for<)\b', t) or re.match(r'^[A-Za-z0-9_:<>, ]+:\s*[A-Z].*[,{]$', t):
            continue
        if 'fmt::' in t or '.field(' in t or 'debug_struct' in t or 'assert' in t or 'expect(' in t and 'unwrap' not in t and False:
            continue
        out.append((i, l))
    return out

def main():
    args = sys.argv[1:]
    files_re = None; maxn = None; shard = (0, 1)
    while args:
        a = args.pop(0)
        if a == '--files': files_re = re.compile(args.pop(0))
        elif a == '--max': maxn = int(args.pop(0))
        elif a == '--shard':
            i, n = args.pop(0).split('/'); shard = (int(i), int(n))
    # point the snapshot's harness at the snapshot's repo
    ct = os.path.join(VERIF, 'harness/Cargo.toml')
    s = open(ct).read().replace('path = "/repo"', f'path = "{REPO}"'); open(ct, 'w').write(s)
    srcs = []
    for root, _, fs in os.walk(os.path.join(REPO, 'src')):
        for f in fs:
            p = os.path.join(root, f)
            rel = os.path.relpath(p, os.path.join(REPO, 'src'))
            if f.endswith('.rs') and 'tests' not in rel and 'verif_hooks' not in rel and 'new-traits' not in rel:
                if files_re is None or files_re.search(rel):
                    srcs.append((rel, p))
    srcs.sort()
    sites = []
    for rel, p in srcs:
        for (ln, text) in body_lines(p):
            code = text.split('//')[0]
            for (rx, rep, name) in OPS:
                ms = list(re.finditer(rx, code))
                if not ms:
                    continue
                # one mutant per (line, operator): the occurrence is chosen by a hash, so runs are reproducible
                k = int(hashlib.md5(f'{rel}:{ln}:{name}'.encode()).hexdigest(), 16) % len(ms)
                m = ms[k]
                new = code[:m.start()] + re.sub(rx, rep, code[m.start():m.end()]) + code[m.end():] + text[len(code):]
                if new != text:
                    sites.append((rel, p, ln, name, text, new))
    sites = [s for i, s in enumerate(sites) if i % shard[1] == shard[0]]
    if maxn: sites = sites[:maxn]
    print(json.dumps({'mutation_sites': len(sites), 'files': len(srcs)}), flush=True)
    # warm up: baseline must pass
    rc, out = sh('cargo test --workspace --offline --no-fail-fast 2>&1 | grep -E "^test result|error(\\[|:)"', REPO, ENV, 900)
    if 'FAILED' in out or 'error' in out:
        print('baseline suite does not pass in the snapshot:', out[-500:]); sys.exit(2)
    rc, out = sh('cd harness && cargo build --quiet --profile checked --features hooks && cargo build --quiet --profile release --features hooks', VERIF, ENV_H, 1800)
    if rc != 0:
        print('harness does not build:', out[-800:]); sys.exit(2)
    tally = {}
    for (rel, p, ln, name, old, new) in sites:
        t0 = time.time()
        lines = open(p).read().split('\n')
        assert lines[ln] == old
        lines[ln] = new
        open(p, 'w').write('\n'.join(lines))
        rec = {'file': rel, 'line': ln + 1, 'op': name, 'old': old.strip()[:120], 'new': new.strip()[:120]}
        try:
            rc, out = sh('cargo check --offline --quiet --tests 2>&1 | tail -3', REPO, ENV, 300)
            if 'error' in out:
                rec['result'] = 'does-not-compile'
            else:
                rc, out = sh('cargo test --workspace --offline --no-fail-fast 2>&1 | grep -E "^test result|panicked|error(\\[|:)|timeout"', REPO, ENV, 300)
                if rc == 124 or 'timeout' in out:
                    rec['result'] = 'suite-timeout'
                elif 'FAILED' in out or 'error' in out:
                    rec['result'] = 'killed-by-suite'
                else:
                    owners = next((c for (rx, c) in FILE_CHECKS if re.search(rx, rel)), ' '.join(ALL)).split()
                    order = owners + [c for c in ALL if c not in owners]
                    rec['result'] = 'survived-suite-UNDETECTED'
                    for c in order:
                        rc, out = sh(f'./check {c} --tier quick', VERIF, ENV_H, 900)
                        if rc == 1 and 'VIOLATION' in out:
                            sub = re.search(r'^sub_check: (.*)$', out, re.M)
                            rec['result'] = 'survived-suite-detected'
                            rec['by'] = c
                            rec['owner_check'] = c in owners
                            rec['sub_check'] = sub.group(1) if sub else ''
                            break
                        if rc != 0:
                            rec['result'] = 'survived-suite-harness-error'
                            rec['by'] = c
                            rec['detail'] = out[-300:]
                            break
        finally:
            lines[ln] = old
            open(p, 'w').write('\n'.join(lines))
        rec['secs'] = round(time.time() - t0, 1)
        tally[rec['result']] = tally.get(rec['result'], 0) + 1
        print(json.dumps(rec), flush=True)
    print(json.dumps({'summary': tally}), flush=True)

if __name__ == '__main__':
    main()
