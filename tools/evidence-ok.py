#!/usr/bin/env python3
"""check that every committed evidence file is a record of a full quick/thorough run on the unchanged tree"""
import json, glob, sys
bad = []
for f in sorted(glob.glob('/verif/evidence/C*.json')):
    e = json.load(open(f))
    c = e['coverage']
    if e.get('violations', 0) != 0 or c['evaluations'] < 100000 or c['distinct_nontrivial'] < 1000 or not c['samples']:
        bad.append((f, c['evaluations'], c['distinct_nontrivial'], e.get('violations')))
print('evidence files:', len(glob.glob('/verif/evidence/C*.json')), 'bad:', bad)
sys.exit(1 if bad else 0)
