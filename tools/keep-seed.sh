#!/bin/bash
# confirm a seeded change, run the given checks against it (generated search only), archive it under /verif/seeded/<ident>/
# usage: keep-seed.sh <ident> <property> <check-id>...
ID=$1; PROP=$2; shift 2
OUT=/tmp/seed-out/$ID; DST=/verif/seeded/$ID
[ -f $OUT/patch.diff ] || { echo "no patch for $ID"; exit 2; }
conf=$(/verif/tools/confirm-seed.sh $ID 2>&1)
echo "$conf" | cut -c1-160
res=$(OHV_NO_CORPUS=1 /verif/tools/try-seed.sh $OUT/patch.diff "$@" 2>&1)
echo "$res"
res2=$(/verif/tools/try-seed.sh $OUT/patch.diff "$@" 2>&1 | grep -E "^== ")
mkdir -p $DST
cp $OUT/patch.diff $DST/patch.diff
cp $OUT/seed_demo.rs $DST/seed_demo.rs
python3 - "$ID" "$PROP" "$conf" "$res" "$res2" "$*" <<'PY'
import json, sys
ident, prop, conf, res, res2, checks = sys.argv[1:7]
try:
    meta = json.load(open(f'/tmp/seed-out/{ident}/meta.json'))
except Exception as e:
    meta = {'note': f'agent meta.json unreadable: {e}'}
suite_ok = 'FAILED' not in conf.split('demo-with-change')[0] and conf.count('ok.') >= 5
out = {
    'property': prop,
    'ident': ident,
    'origin': 'independent sub-agent given only the property text and a scratch worktree',
    'summary': meta.get('summary'),
    'needs_to_manifest': meta.get('needs_to_manifest'),
    'files_changed': meta.get('files_changed'),
    'confirmed_by_me': {
        'commands': ['cargo test --workspace --no-fail-fast --offline (with the change, demo moved aside)', 'cargo test --offline --test seed_demo (with the change)', 'cargo test --offline --test seed_demo (src change stashed)'],
        'suite_passes_with_change': suite_ok,
        'demo_fails_with_change': 'FAILED' in conf.split('demo-with-change')[1].split('demo-without-change')[0],
        'demo_passes_without_change': 'FAILED' not in conf.split('demo-without-change')[1],
        'raw': conf,
    },
    'checks_run': checks.split(),
    'detection_generated_search_only': [l for l in res.splitlines() if l.startswith('== ') or l.startswith('sub_check') or l.startswith('message')],
    'detection_with_regression_cases': res2.splitlines(),
}
json.dump(out, open(f'/verif/seeded/{ident}/meta.json', 'w'), indent=1)
print('kept', ident, 'suite_ok', suite_ok)
PY
git -C /repo worktree remove --force /tmp/seed-$ID 2>/dev/null && echo "worktree removed"
