#![no_main]
//! One libFuzzer target for all properties: bytes -> choice tape -> the property's check
//! function (the semantic oracle is inside the target).  The property is chosen by OHV_PROP.
use libfuzzer_sys::fuzz_target;
use std::sync::OnceLock;

struct Cfg {
    prop: &'static ohv::engine::Prop,
    tier: ohv::engine::Tier,
    known: Vec<ohv::engine::Known>,
    out: Option<String>,
}

static CFG: OnceLock<Cfg> = OnceLock::new();

fn cfg() -> &'static Cfg {
    CFG.get_or_init(|| {
        // replace libfuzzer-sys's abort-on-panic hook: expected (documented) panics are caught
        // inside the checks; a violation aborts explicitly below.
        ohv::engine::install_panic_hook();
        let id = std::env::var("OHV_PROP").unwrap_or_else(|_| "C01".into());
        let prop = ohv::find_prop(&id).expect("OHV_PROP names no property");
        let tier = match std::env::var("OHV_FUZZ_TIER").as_deref() {
            Ok("quick") => ohv::engine::Tier::Quick,
            _ => ohv::engine::Tier::Thorough,
        };
        let vd = std::env::var("OHV_VERIF_DIR").unwrap_or_else(|_| "/verif".into());
        Cfg {
            prop,
            tier,
            known: ohv::engine::load_known(std::path::Path::new(&vd)),
            out: std::env::var("OHV_FUZZ_OUT").ok(),
        }
    })
}

fuzz_target!(|data: &[u8]| {
    let c = cfg();
    if let Some(f) = ohv::fuzz_one(c.prop, c.tier, data, &c.known) {
        if let Some(out) = &c.out {
            let text = format!(
                "property: {}\nsub_check: {}\norigin: libFuzzer\nwords: {}\n# message: {}\n",
                c.prop.id,
                f.sub_check,
                ohv::tape::tape_to_string(&f.words),
                f.message.replace('\n', " ")
            );
            let _ = std::fs::write(out, text);
        }
        eprintln!("FUZZ-FAILURE {} {}: {}", c.prop.id, f.sub_check, f.message);
        std::process::abort();
    }
});
