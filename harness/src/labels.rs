//! Label types handed to the library (newtypes so that the library's traits can be implemented)
use open_hypergraphs::lax::var::HasVar;
use serde::{Deserialize, Serialize};

#[derive(Clone, Copy, PartialEq, Eq, Hash, Debug, PartialOrd, Ord, Serialize, Deserialize)]
pub struct Ob(pub u32);

#[derive(Clone, Copy, PartialEq, Eq, Hash, Debug, PartialOrd, Ord, Serialize, Deserialize)]
pub struct Op(pub u32);

/// the edge label distinguished as "variable"
pub const VAR: u32 = 1000;

impl HasVar for Op {
    fn var() -> Self {
        Op(VAR)
    }
}

pub fn obs(v: &[u32]) -> Vec<Ob> {
    v.iter().map(|&x| Ob(x)).collect()
}
pub fn unobs(v: &[Ob]) -> Vec<u32> {
    v.iter().map(|x| x.0).collect()
}
