//! Label types handed to the library (newtypes so that the library's traits can be implemented)
use open_hypergraphs::lax::var::HasVar;
use serde::{Deserialize, Serialize};

#[derive(Clone, Copy, PartialEq, Eq, Hash, Debug, PartialOrd, Ord, Serialize, Deserialize)]
pub struct Ob(pub u32);

#[derive(Clone, Copy, PartialEq, Eq, Hash, Debug, PartialOrd, Ord, Serialize, Deserialize)]
pub struct Op(pub u32);

/// the edge label distinguished as "variable"
pub const VAR: u32 = 1000;

impl HasVar for Op {
    fn var() -> Self {
        Op(VAR)
    }
}

pub fn obs(v: &[u32]) -> Vec<Ob> {
    v.iter().map(|&x| Ob(x)).collect()
}
pub fn unobs(v: &[Ob]) -> Vec<u32> {
    v.iter().map(|x| x.0).collect()
}

// operator overloads of the Var interface.  The signature is deliberately heterogeneous: the
// result type of an operator is a function of its operand types that differs from both, so that
// an implementation which guesses the result type from an operand is told apart from one that
// asks the signature.
use open_hypergraphs::lax::var::*;

pub fn binop_type(code: u32, lhs: u32, rhs: u32) -> Ob {
    Ob((lhs + rhs + code) % 2)
}
pub fn neg_type(t: u32) -> Ob {
    Ob((t + 1) % 2)
}

macro_rules! binop {
    ($tr:ident, $f:ident, $code:expr) => {
        impl $tr<Ob, Op> for Op {
            fn $f(lhs: Ob, rhs: Ob) -> (Ob, Op) {
                (binop_type($code, lhs.0, rhs.0), Op($code))
            }
        }
    };
}
binop!(HasAdd, add, 0);
binop!(HasSub, sub, 1);
binop!(HasMul, mul, 2);
binop!(HasBitXor, bitxor, 4);
binop!(HasBitAnd, bitand, 5);
binop!(HasBitOr, bitor, 12);
binop!(HasShl, shl, 13);
binop!(HasShr, shr, 14);
binop!(HasDiv, div, 15);
impl HasNeg<Ob, Op> for Op {
    fn neg(t: Ob) -> (Ob, Op) {
        (neg_type(t.0), Op(3))
    }
}
impl HasNot<Ob, Op> for Op {
    fn not(t: Ob) -> (Ob, Op) {
        (t, Op(6))
    }
}
