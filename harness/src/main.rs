use ohv::engine::*;
use std::path::PathBuf;
use std::process::{Command, Stdio};

fn verif_dir() -> PathBuf {
    std::env::var("OHV_VERIF_DIR")
        .map(PathBuf::from)
        .unwrap_or_else(|_| PathBuf::from("/verif"))
}

fn usage() -> ! {
    eprintln!("usage: ohv list | ohv check <ID> [--tier quick|thorough] [--cases N] [--child] [--workers N] [--offset K] | ohv replay <ID> <file> | ohv dump <ID> <file>");
    std::process::exit(2)
}

fn main() {
    install_panic_hook();
    let args: Vec<String> = std::env::args().collect();
    if args.len() < 2 {
        usage();
    }
    match args[1].as_str() {
        "list" => {
            for p in ohv::props::ALL {
                println!("{} {}", p.id, p.title);
            }
        }
        "check" => cmd_check(&args[2..]),
        "export-seeds" => cmd_export(&args[2..]),
        "scale" => cmd_scale(&args[2..]),
        "max-tape" => {
            let Some(p) = args.get(2).and_then(|id| ohv::find_prop(id)) else { usage() };
            println!("{}", p.max_tape.1);
        }
        "replay" => cmd_replay(&args[2..]),
        _ => usage(),
    }
}

struct Opts {
    id: String,
    tier: Tier,
    cases: Option<u64>,
    child: bool,
    workers: u64,
    offset: u64,
    seed: u64,
}

fn parse(args: &[String]) -> Opts {
    if args.is_empty() {
        usage();
    }
    let mut o = Opts {
        id: args[0].clone(),
        tier: match std::env::var("VERIF_TIER").as_deref() {
            Ok("thorough") => Tier::Thorough,
            _ => Tier::Quick,
        },
        cases: None,
        child: false,
        workers: std::thread::available_parallelism()
            .map(|n| n.get() as u64)
            .unwrap_or(8)
            .min(16),
        offset: 0,
        seed: std::env::var("VERIF_SEED")
            .ok()
            .and_then(|s| s.trim().parse::<i64>().ok())
            .map(|x| x as u64)
            .unwrap_or(0),
    };
    let mut i = 1;
    while i < args.len() {
        match args[i].as_str() {
            "--tier" => {
                i += 1;
                o.tier = match args.get(i).map(|s| s.as_str()) {
                    Some("quick") => Tier::Quick,
                    Some("thorough") => Tier::Thorough,
                    _ => usage(),
                };
            }
            "--cases" => {
                i += 1;
                o.cases = args.get(i).and_then(|s| s.parse().ok());
            }
            "--workers" => {
                i += 1;
                o.workers = args.get(i).and_then(|s| s.parse().ok()).unwrap_or(o.workers);
            }
            "--offset" => {
                i += 1;
                o.offset = args.get(i).and_then(|s| s.parse().ok()).unwrap_or(0);
            }
            "--seed" => {
                i += 1;
                o.seed = args.get(i).and_then(|s| s.parse().ok()).unwrap_or(o.seed);
            }
            "--child" => o.child = true,
            _ => usage(),
        }
        i += 1;
    }
    o
}

fn cmd_check(args: &[String]) {
    let o = parse(args);
    let Some(prop) = ohv::find_prop(&o.id) else {
        eprintln!("HARNESS-ERROR: unknown property {}", o.id);
        std::process::exit(2);
    };
    let t0 = now();
    let vd = verif_dir();
    let known = load_known(&vd);
    // the per-property numbers in the Prop tables are base counts; both tiers run a fixed multiple
    let total_cases = o.cases.unwrap_or(match o.tier {
        Tier::Quick => prop.cases.0 * 8,
        Tier::Thorough => prop.cases.1 * 3,
    });
    // OHV_CASE_SCALE=<float>: sensitivity experiments only (mutation runs use a fraction of the cases)
    let total_cases = match std::env::var("OHV_CASE_SCALE").ok().and_then(|s| s.parse::<f64>().ok()) {
        Some(f) if o.cases.is_none() => ((total_cases as f64) * f).max(16.0) as u64,
        _ => total_cases,
    };

    // the release-build half runs in a child process (a different binary)
    let release_bin = std::env::var("OHV_RELEASE_BIN").ok().filter(|s| !s.is_empty());
    let use_child = !o.child && prop.both_profiles && release_bin.is_some();
    let my_cases = if use_child { total_cases / 2 } else { total_cases };
    let child = if use_child {
        let mut c = Command::new(release_bin.as_ref().unwrap());
        c.arg("check")
            .arg(&o.id)
            .arg("--tier")
            .arg(o.tier.name())
            .arg("--cases")
            .arg((total_cases - my_cases).to_string())
            .arg("--seed")
            .arg(o.seed.to_string())
            .arg("--offset")
            .arg("1000")
            .arg("--child")
            .stdout(Stdio::piped())
            .stderr(Stdio::inherit());
        match c.spawn() {
            Ok(ch) => Some(ch),
            Err(e) => {
                eprintln!("HARNESS-ERROR: cannot start release-build child: {e}");
                std::process::exit(2);
            }
        }
    } else {
        None
    };

    // OHV_NO_CORPUS=1: sensitivity experiments only (is a mutant found by generated search alone?)
    let (corpus_n, mut stats) = if std::env::var("OHV_NO_CORPUS").is_ok() {
        (0, Stats::default())
    } else {
        run_corpus(prop, o.tier, &vd, &known)
    };
    let mut scale_run = false;
    if !o.child && stats.failure.is_none() && stats.harness_error.is_none() && std::env::var("OHV_NO_CORPUS").is_err() {
        if prop.scale.is_some() {
            scale_run = true;
            if let Some(f) = run_scale_child(prop) {
                stats.failure = Some(f);
            } else {
                stats.evaluations += 1;
                *stats.classes.entry("scale-cases-passed".into()).or_default() += 1;
            }
        }
    }
    let _ = scale_run;
    if let Ok(extra) = std::env::var("OHV_EXTRA_TAPE") {
        if let Some(words) = read_tape_file(std::path::Path::new(&extra)) {
            if stats.failure.is_none() {
                if let Some(f) = shrink_failing_tape(prop, o.tier, &known, words, "libFuzzer campaign") {
                    stats.failure = Some(f);
                }
            }
        }
    }
    if stats.failure.is_none() && stats.harness_error.is_none() {
        let cfg = RunConfig {
            tier: o.tier,
            seed: o.seed,
            cases: my_cases,
            workers: o.workers,
            worker_offset: o.offset,
        };
        stats.merge(run_generated(prop, &cfg, &known));
    }

    if o.child {
        // hand the statistics to the parent
        println!("{}", serde_json::to_string(&stats).unwrap());
        return;
    }

    let mut profiles = vec![if cfg!(debug_assertions) {
        "checked (release + debug assertions + overflow checks)"
    } else {
        "release"
    }
    .to_string()];
    if let Some(ch) = child {
        match ch.wait_with_output() {
            Ok(out) if out.status.success() => {
                let text = String::from_utf8_lossy(&out.stdout);
                match text
                    .lines()
                    .rev()
                    .find(|l| l.starts_with('{'))
                    .and_then(|l| serde_json::from_str::<Stats>(l).ok())
                {
                    Some(cs) => {
                        profiles.push("release (plain, wrapping arithmetic)".to_string());
                        let mut cs = cs;
                        if let Some(f) = cs.failure.as_mut() {
                            f.origin = format!("{} [plain release build]", f.origin);
                        }
                        stats.merge(cs);
                    }
                    None => {
                        eprintln!("HARNESS-ERROR: release-build child produced no statistics");
                        std::process::exit(2);
                    }
                }
            }
            Ok(out) => {
                eprintln!(
                    "HARNESS-ERROR: release-build child exited with {:?}",
                    out.status.code()
                );
                std::process::exit(2);
            }
            Err(e) => {
                eprintln!("HARNESS-ERROR: release-build child: {e}");
                std::process::exit(2);
            }
        }
    }

    let wall = t0.elapsed().as_secs_f64();
    let extra = serde_json::json!({
        "profiles": profiles,
        "hooks": cfg!(feature = "hooks"),
        "workers": o.workers,
        "max_tape_words": match o.tier { Tier::Quick => prop.max_tape.0, Tier::Thorough => prop.max_tape.1 },
        "sizes": format!("{:?}", Sizes::of(o.tier)),
        "fuzz": fuzz_summary(),
    });
    let ev = evidence_json(prop, o.tier, o.seed, &stats, corpus_n, wall, extra);
    // sensitivity experiments write their evidence elsewhere (OHV_EVIDENCE_DIR), so that the committed
    // evidence files always come from runs on the unchanged tree
    let evdir = std::env::var("OHV_EVIDENCE_DIR").map(PathBuf::from).unwrap_or_else(|_| vd.join("evidence"));
    let _ = std::fs::create_dir_all(&evdir);
    let evpath = evdir.join(format!("{}.json", prop.id));
    if let Err(e) = std::fs::write(&evpath, serde_json::to_string_pretty(&ev).unwrap()) {
        eprintln!("HARNESS-ERROR: cannot write evidence {}: {e}", evpath.display());
        std::process::exit(2);
    }

    for k in known.iter().filter(|k| k.property == prop.id) {
        println!(
            "KNOWN-FINDING: property={} {} (sub_check={} signature={:?}; hit {} times in this run)",
            prop.id,
            k.text,
            k.sub_check,
            k.signature,
            stats.known_hits.get(&k.signature).copied().unwrap_or(0)
        );
    }

    if let Some(e) = &stats.harness_error {
        eprintln!("HARNESS-ERROR: property={} {}", prop.id, e);
        std::process::exit(2);
    }
    if let Some(f) = &stats.failure {
        let path = if f.origin.starts_with("corpus file ") {
            PathBuf::from(f.origin.trim_start_matches("corpus file ").split(' ').next().unwrap())
        } else {
            write_replay(&vd, prop.id, f)
        };
        println!("sub_check: {}", f.sub_check);
        println!("message: {}", f.message);
        println!("case: {}", f.dump);
        println!("origin: {}", f.origin);
        println!("VIOLATION property={} replay={}", prop.id, path.display());
        std::process::exit(1);
    }
    if stats.inconclusive * 100 > stats.evaluations.max(1) {
        eprintln!(
            "HARNESS-ERROR: property={} {} of {} cases inconclusive",
            prop.id, stats.inconclusive, stats.evaluations
        );
        std::process::exit(2);
    }
    println!(
        "PASS property={} tier={} seed={} evaluations={} distinct_nontrivial={} corpus={} wall={:.1}s",
        prop.id,
        o.tier.name(),
        o.seed,
        stats.evaluations,
        stats.nontrivial.len(),
        corpus_n,
        wall
    );
}

fn cmd_replay(args: &[String]) {
    if args.len() < 2 {
        usage();
    }
    let Some(prop) = ohv::find_prop(&args[0]) else {
        eprintln!("HARNESS-ERROR: unknown property {}", args[0]);
        std::process::exit(2);
    };
    let path = PathBuf::from(&args[1]);
    let text = std::fs::read_to_string(&path).unwrap_or_default();
    if text.contains("origin: scale case") {
        match run_scale_child(prop) {
            None => {
                println!("replay [scale cases]: pass");
                std::process::exit(0);
            }
            Some(f) => {
                println!("replay [scale cases]: FAIL\nsub_check: {}\nmessage: {}", f.sub_check, f.message);
                println!("VIOLATION property={} replay={}", prop.id, path.display());
                std::process::exit(1);
            }
        }
    }
    if text.contains("origin: hand-written regression case") {
        if let Some(fixed) = prop.fixed {
            let mut ctx = Ctx::new(Tier::Quick, false);
            match fixed(&mut ctx) {
                Ok(()) => {
                    println!("replay [hand-written regression cases]: pass");
                    std::process::exit(0);
                }
                Err(v) => {
                    println!("replay [hand-written regression cases]: FAIL\nsub_check: {}\nmessage: {}\ncase: {}", v.sub_check, v.message, v.dump);
                    println!("VIOLATION property={} replay={}", prop.id, path.display());
                    std::process::exit(1);
                }
            }
        }
    }
    let Some(words) = read_tape_file(&path) else {
        eprintln!("HARNESS-ERROR: cannot read a tape from {}", path.display());
        std::process::exit(2);
    };
    let child = args.iter().any(|a| a == "--child");
    let mut code = 0;
    for tier in [Tier::Quick, Tier::Thorough] {
        let mut ctx = Ctx::new(tier, true);
        match run_case(prop, &words, &mut ctx) {
            CaseOutcome::Pass => {
                println!("replay [{} sizes, {}]: pass; case: {}", tier.name(), build_name(), ctx.dump);
            }
            CaseOutcome::HarnessError(e) => {
                eprintln!("HARNESS-ERROR: {e}");
                std::process::exit(2);
            }
            CaseOutcome::Violation(v) => {
                println!("replay [{} sizes, {}]: FAIL", tier.name(), build_name());
                println!("sub_check: {}", v.sub_check);
                println!("message: {}", v.message);
                println!("case: {}", v.dump);
                code = 1;
            }
        }
    }
    if !child && prop.both_profiles {
        if let Ok(bin) = std::env::var("OHV_RELEASE_BIN") {
            if !bin.is_empty() {
                let st = Command::new(bin)
                    .arg("replay")
                    .arg(&args[0])
                    .arg(&args[1])
                    .arg("--child")
                    .status();
                if let Ok(st) = st {
                    if st.code() == Some(1) {
                        code = 1;
                    }
                }
            }
        }
    }
    if code == 1 && !child {
        println!("VIOLATION property={} replay={}", prop.id, path.display());
    }
    std::process::exit(code);
}

/// write corpus tapes and `n` generated tapes as libFuzzer seed files (2 bytes per word)
fn cmd_export(args: &[String]) {
    use proptest::strategy::{Strategy, ValueTree};
    use proptest::test_runner::{Config, RngAlgorithm, TestRng, TestRunner};
    if args.len() < 3 {
        usage();
    }
    let Some(prop) = ohv::find_prop(&args[0]) else { usage() };
    let dir = PathBuf::from(&args[1]);
    let n: usize = args[2].parse().unwrap_or(64);
    let _ = std::fs::create_dir_all(&dir);
    let mut k = 0;
    for f in corpus_files(&verif_dir(), prop.id) {
        let _ = std::fs::write(dir.join(format!("corpus-{k}")), ohv::tape::tape_to_bytes(&f.words));
        k += 1;
    }
    let seed: u64 = std::env::var("VERIF_SEED").ok().and_then(|s| s.parse::<i64>().ok()).map(|x| x as u64).unwrap_or(0);
    let mut bytes = [0u8; 32];
    bytes[..8].copy_from_slice(&hash64(&(seed, prop.id, "export")).to_le_bytes());
    let mut runner = TestRunner::new_with_rng(Config::default(), TestRng::from_seed(RngAlgorithm::ChaCha, &bytes));
    let strat = proptest::collection::vec(proptest::num::u32::ANY, 0..=prop.max_tape.1);
    for i in 0..n {
        if let Ok(t) = strat.new_tree(&mut runner) {
            let _ = std::fs::write(dir.join(format!("gen-{i}")), ohv::tape::tape_to_bytes(&t.current()));
        }
    }
    println!("exported {} seeds to {}", k + n, dir.display());
}

/// run the property's large structured cases in this process (on the main thread)
fn cmd_scale(args: &[String]) {
    let Some(prop) = args.first().and_then(|id| ohv::find_prop(id)) else { usage() };
    let Some(scale) = prop.scale else {
        println!("no scale cases");
        return;
    };
    let mut ctx = Ctx::new(Tier::Thorough, false);
    let r = std::panic::catch_unwind(std::panic::AssertUnwindSafe(|| scale(&mut ctx)));
    match r {
        Ok(Ok(())) => println!("scale cases passed: {:?}", ctx.sub_checks),
        Ok(Err(v)) => {
            println!("sub_check: {}", v.sub_check);
            println!("message: {}", v.message.replace('\n', " "));
            println!("case: {}", v.dump.replace('\n', " "));
            std::process::exit(1);
        }
        Err(_) => {
            println!("sub_check: no-panic");
            println!("message: panic while running the scale cases; case: {}", ctx.dump.replace('\n', " "));
            std::process::exit(1);
        }
    }
}

/// parent side: run `ohv scale <ID>` as a child; a dead child is a violation of "returns for every input"
fn run_scale_child(prop: &Prop) -> Option<Failure> {
    prop.scale?;
    let exe = std::env::current_exe().ok()?;
    let out = Command::new(exe).arg("scale").arg(prop.id).stdout(Stdio::piped()).stderr(Stdio::piped()).output().ok()?;
    let text = String::from_utf8_lossy(&out.stdout).to_string();
    let err = String::from_utf8_lossy(&out.stderr).to_string();
    match out.status.code() {
        Some(0) => None,
        Some(1) => {
            let get = |k: &str| text.lines().find_map(|l| l.strip_prefix(k)).unwrap_or("").trim().to_string();
            Some(Failure { words: vec![], sub_check: get("sub_check:"), message: get("message:"), dump: get("case:"), origin: "scale case (large structured input, child process)".into() })
        }
        other => Some(Failure {
            words: vec![],
            sub_check: "scale-returns".into(),
            message: format!(
                "the process running the large structured cases died (exit code {:?}, signal {:?}): {}",
                other,
                std::os::unix::process::ExitStatusExt::signal(&out.status),
                err.lines().rev().take(3).collect::<Vec<_>>().join(" | ")
            ),
            dump: text.lines().last().unwrap_or("").to_string(),
            origin: "scale case (large structured input, child process)".into(),
        }),
    }
}

/// the libFuzzer campaign's summary line (thorough tier), as structured data
fn fuzz_summary() -> serde_json::Value {
    let Ok(line) = std::env::var("OHV_FUZZ_SUMMARY") else {
        return serde_json::json!("not part of this tier (coverage-guided campaign runs in the thorough tier only)");
    };
    let num = |k: &str| -> Option<u64> {
        line.split_whitespace().find_map(|w| w.strip_prefix(k)).and_then(|v| v.parse().ok())
    };
    serde_json::json!({
        "engine": "libFuzzer (cargo-fuzz, sanitizer none), 8 jobs, oracle inside the target",
        "executions": num("executions="),
        "max_coverage_counter": num("max_cov="),
        "corpus_units": num("corpus_units="),
        "crashes": num("crashes="),
        "raw": line,
    })
}

fn build_name() -> &'static str {
    if cfg!(debug_assertions) {
        "checked build"
    } else {
        "plain release build"
    }
}
