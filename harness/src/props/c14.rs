//! C14 — the optic transformation is well-typed, functorial and differentiates correctly
use super::common::*;
use crate::engine::*;
use crate::ensure;
use crate::functor_model::{optic_image, optic_type, OpKey, OpticTable, TableFunctor};
use crate::gen::{self, OpSpec};
use crate::kinds::vec_inst as sv;
use crate::lax_ops::*;
use crate::model::{Diagram, Edge};
use crate::tape::Tape;
use open_hypergraphs::lax::optic::Optic as LaxOptic;
use std::collections::BTreeMap;

pub static PROP: Prop = Prop {
    id: "C14",
    title: "Optic transformation is well-typed, functorial and differentiates correctly",
    check,
    max_tape: (520, 900),
    cases: (24_000, 400_000),
    both_profiles: false,
    rule: "(55%) a composable pair of generated diagrams with an optic table (forward / reverse object maps of length 0..2, per-label residual lists of length 0..2, per-operation forward images F A -> F B . M and reverse images M . R B -> R A generated with the right boundary): image and adapted image compared up to isomorphism with the optic definition evaluated on the plain model, types, functoriality, strict and lax entry points; (15%) monogamous circuits with single-operation images for the monogamy clause; (30%) monogamous acyclic polynomial circuits over {add, mul, neg, copy, discard, const} with permuted numbering, the standard reverse-derivative lenses and three input vectors each: eval(map_adapted(c), x ++ dy) must equal (c(x), J^T dy) from an independent reverse-mode reference in wrapping u64 arithmetic; non-trivial = typing: >= 2 hyperedges with a non-empty residual, derivative: >= 1 mul and >= 1 copy; distinct = hash of the generated data",
    assumptions: &[
        "residuals are a function of the operation label (required by the lax entry point)",
        "the derivative clause is checked for the polynomial signature only",
    ],
    fixed: Some(fixed),
    scale: None,
};

fn check(t: &mut Tape, ctx: &mut Ctx) -> CheckResult {
    ctx.cap_medium(70);
    match t.weighted(&[11, 3, 6]) {
        0 => typing(t, ctx),
        1 => monogamy(t, ctx),
        _ => derivative(t, ctx),
    }
}

/// optic table whose residual depends on the operation label only
pub fn optic_table(t: &mut Tape, al: gen::Alpha, keys: &std::collections::BTreeSet<OpKey>, singletons: bool, ctx: &mut Ctx) -> OpticTable {
    let fobj = gen::object_map(t, al.nl, al.nl, 2);
    let robj = gen::object_map(t, al.nl, al.nl, 2);
    let res_by_label: Vec<Vec<u32>> = (0..al.el.max(1)).map(|_| (0..t.choice(3)).map(|_| t.choice(al.nl) as u32).collect()).collect();
    let mut o = OpticTable {
        fwd: TableFunctor { obj: fobj, ops: BTreeMap::new() },
        rev: TableFunctor { obj: robj, ops: BTreeMap::new() },
        residual: BTreeMap::new(),
    };
    for k in keys {
        let m = res_by_label[(k.0 as usize) % res_by_label.len()].clone();
        let fa = o.fwd.objects(&k.1);
        let mut fbm = o.fwd.objects(&k.2);
        fbm.extend_from_slice(&m);
        let mut mrb = m.clone();
        mrb.extend(o.rev.objects(&k.2));
        let ra = o.rev.objects(&k.1);
        let (fwd, rev) = if singletons {
            (Diagram::singleton(k.0, &fa, &fbm), Diagram::singleton(k.0 + 50, &mrb, &ra))
        } else {
            (gen::op_image(t, al, &fa, &fbm, ctx), gen::op_image(t, al, &mrb, &ra, ctx))
        };
        o.fwd.ops.insert(k.clone(), fwd);
        o.rev.ops.insert(k.clone(), rev);
        o.residual.insert(k.clone(), m);
    }
    o
}

fn cat(a: &[u32], b: &[u32]) -> Vec<u32> {
    a.iter().chain(b.iter()).copied().collect()
}

fn typing(t: &mut Tape, ctx: &mut Ctx) -> CheckResult {
    ctx.class("group:typing");
    let sz = ctx.sizes;
    let al = gen::alpha(t, &sz);
    let ds = gen::composable(t, &sz, al, 2, ctx);
    let (f, g) = (&ds[0], &ds[1]);
    let keys = gen::op_keys(&[f, g]);
    let o = optic_table(t, al, &keys, false, ctx);
    ctx.set_dump(format!("f = {}\ng = {}\noptic = {}", f.pretty(), g.pretty(), o.pretty()));
    let (want, want_adapted) = optic_image(f, &o);
    let got = wf(ctx, "optic-wf", sv::op_optic(&o, f), "Optic(f)")?;
    require_iso(ctx, "optic-is-definition", &got, &want, "Optic(f) vs the optic definition on the model")?;
    ctx.sub("optic-type");
    let (a, b) = (f.source_type(), f.target_type());
    ensure!(ctx, got.source_type() == optic_type(&o, &a) && got.target_type() == optic_type(&o, &b), "optic-type", "Optic(f) has type {:?} -> {:?}, want interleave(FA,RA) -> interleave(FB,RB) = {:?} -> {:?}", got.source_type(), got.target_type(), optic_type(&o, &a), optic_type(&o, &b));
    let got_ad = wf(ctx, "optic-wf", sv::op_optic_adapted(&o, f), "adapt(Optic(f))")?;
    require_iso(ctx, "adapted-is-definition", &got_ad, &want_adapted, "adapted optic vs the definition")?;
    ctx.sub("adapted-type");
    let want_s = cat(&o.fwd.objects(&a), &o.rev.objects(&b));
    let want_t = cat(&o.fwd.objects(&b), &o.rev.objects(&a));
    ensure!(ctx, got_ad.source_type() == want_s && got_ad.target_type() == want_t, "adapted-type", "adapted optic has type {:?} -> {:?}, want FA.RB -> FB.RA = {:?} -> {:?}", got_ad.source_type(), got_ad.target_type(), want_s, want_t);
    // lax entry points
    let lo = LOptic(o.clone());
    let l = lo.map_arrow(to_lax_d(f));
    let l = wf(ctx, "optic-wf", from_lax(&l), "lax Optic(f)")?.strictify().map_err(|e| ctx.fail("optic-wf", e))?;
    require_iso(ctx, "lax-optic-is-definition", &l, &want, "lax Optic::map_arrow(f) vs the definition")?;
    let l = lo.map_adapted(to_lax_d(f));
    let l = wf(ctx, "optic-wf", from_lax(&l), "lax map_adapted(f)")?.strictify().map_err(|e| ctx.fail("optic-wf", e))?;
    require_iso(ctx, "lax-adapted-is-definition", &l, &want_adapted, "lax Optic::map_adapted(f) vs the definition")?;
    // lax entry points on an argument that still carries pending unifications
    let pend = gen::pending_pairs(t, f, 2, true);
    if !pend.is_empty() {
        let lx = crate::model::Lax { d: f.clone(), q: pend.clone() };
        let fq = lx.strictify().expect("consistent");
        let (wp, wpa) = optic_image(&fq, &o);
        let l = lo.map_arrow(to_lax(&lx));
        let l = wf(ctx, "optic-wf", from_lax(&l), "lax Optic(f with pending)")?.strictify().map_err(|e| ctx.fail("optic-wf", e))?;
        require_iso(ctx, "lax-optic-respects-pending", &l, &wp, "lax Optic::map_arrow on an argument with pending unifications")?;
        let l = lo.map_adapted(to_lax(&lx));
        let l = wf(ctx, "optic-wf", from_lax(&l), "lax map_adapted(f with pending)")?.strictify().map_err(|e| ctx.fail("optic-wf", e))?;
        require_iso(ctx, "lax-optic-respects-pending", &l, &wpa, "lax Optic::map_adapted on an argument with pending unifications")?;
    }
    // lax optics whose generator images still carry (label-consistent) pending unifications: the
    // image denotes its quotient
    {
        use crate::functor_model::OpKey;
        use std::collections::BTreeMap;
        let mut pf: BTreeMap<OpKey, Vec<(usize, usize)>> = BTreeMap::new();
        let mut pr: BTreeMap<OpKey, Vec<(usize, usize)>> = BTreeMap::new();
        let mut oq = o.clone();
        let mut any = false;
        for k in o.fwd.ops.keys() {
            for (side, table, pend) in [(0, &o.fwd, &mut pf), (1, &o.rev, &mut pr)] {
                let img = &table.ops[k];
                let q = if t.chance(1, 2) { gen::pending_pairs(t, img, 2, true) } else { vec![] };
                any |= q.iter().any(|(a, b)| a != b);
                let st = crate::model::Lax { d: img.clone(), q: q.clone() }.strictify().expect("consistent");
                if side == 0 {
                    oq.fwd.ops.insert(k.clone(), st);
                } else {
                    oq.rev.ops.insert(k.clone(), st);
                }
                pend.insert(k.clone(), q);
            }
        }
        if any {
            ctx.class("optic-images-with-pending-pairs");
            ctx.set_dump(format!("{}\npending in fwd images = {:?}\npending in rev images = {:?}", ctx.dump, pf, pr));
            let (wq, wqa) = optic_image(f, &oq);
            let lop = LOpticPending(o.clone(), pf, pr);
            let l = lop.map_arrow(to_lax_d(f));
            let l = wf(ctx, "optic-wf", from_lax(&l), "lax Optic(f), images with pending pairs")?.strictify().map_err(|e| ctx.fail("optic-wf", e))?;
            require_iso(ctx, "lax-optic-images-with-pending", &l, &wq, "lax Optic::map_arrow for generator images with pending unifications")?;
            let l = lop.map_adapted(to_lax_d(f));
            let l = wf(ctx, "optic-wf", from_lax(&l), "lax map_adapted(f), images with pending pairs")?.strictify().map_err(|e| ctx.fail("optic-wf", e))?;
            require_iso(ctx, "lax-optic-images-with-pending", &l, &wqa, "lax Optic::map_adapted for generator images with pending unifications")?;
        }
    }
    // functoriality
    let og = wf(ctx, "optic-wf", sv::op_optic(&o, g), "Optic(g)")?;
    let fg = f.compose(g).expect("composable");
    let l = wf(ctx, "optic-wf", sv::op_optic(&o, &fg), "Optic(f;g)")?;
    let r = got.compose(&og).ok_or_else(|| ctx.fail("optic-preserves-composition", "Optic(f) and Optic(g) are not composable"))?;
    require_iso(ctx, "optic-preserves-composition", &l, &r, "Optic(f;g) vs Optic(f);Optic(g)")?;
    let l = wf(ctx, "optic-wf", sv::op_optic(&o, &f.juxtapose(g)), "Optic(f|g)")?;
    require_iso(ctx, "optic-preserves-tensor", &l, &got.juxtapose(&og), "Optic(f|g) vs Optic(f)|Optic(g)")?;

    let with_res = f.edges.iter().any(|e| {
        let k = (e.label, e.src.iter().map(|&v| f.nodes[v]).collect::<Vec<_>>(), e.tgt.iter().map(|&v| f.nodes[v]).collect::<Vec<_>>());
        !o.residual[&k].is_empty()
    });
    ctx.class_if(with_res, "non-empty-residual");
    ctx.class_if(a.len() >= 3 || b.len() >= 3, "boundary>=3");
    if f.edges.len() >= 2 && with_res {
        ctx.nontrivial(&(f, g, &o.fwd.obj, &o.rev.obj, &o.fwd.ops, &o.rev.ops, &o.residual));
        if ctx.want_sample {
            ctx.sample = Some(format!("{} => Optic(f) = {}", ctx.dump.replace('\n', " ; "), got.pretty()));
        }
    }
    Ok(())
}

fn monogamy(t: &mut Tape, ctx: &mut Ctx) -> CheckResult {
    ctx.class("group:monogamy");
    let al = gen::Alpha { nl: 1, el: 6 };
    let nin = t.range(0, ctx.mlen(3).min(40));
    let nops = t.range(0, ctx.mlen(5).min(140));
    let c = gen::monogamous_circuit(t, super::c17::SIG, nin, nops);
    let keys = gen::op_keys(&[&c]);
    let o = optic_table(t, al, &keys, true, ctx);
    ctx.set_dump(format!("c = {}\noptic = {}", c.pretty(), o.pretty()));
    ctx.sub("adapted-is-monogamous");
    let ad = wf(ctx, "optic-wf", sv::op_optic_adapted(&o, &c), "map_adapted(c)")?;
    ensure!(ctx, c.is_monogamous(), "harness-generator", "harness: circuit generator produced a non-monogamous circuit");
    ensure!(ctx, ad.is_monogamous(), "adapted-is-monogamous", "adapted optic of a monogamous circuit with monogamous images is not monogamous: {}", ad.pretty());
    let (_, want) = optic_image(&c, &o);
    require_iso(ctx, "adapted-is-definition", &ad, &want, "adapted optic vs the definition")?;
    if c.edges.len() >= 2 {
        ctx.nontrivial(&(&c, &o.fwd.obj, &o.rev.obj, &o.residual));
        if ctx.want_sample {
            ctx.sample = Some(format!("monogamy: {}", ctx.dump.replace('\n', " ; ")));
        }
    }
    Ok(())
}

// ---------------------------------------------------------------- reverse derivative

const ADD: u32 = 0;
const MUL: u32 = 2;
const NEG: u32 = 3;
const COPY: u32 = 8;
const DISCARD: u32 = 11;
const CONST0: u32 = 100;

pub const POLY: &[OpSpec] = &[
    OpSpec { label: ADD, ins: 2, outs: 1 },
    OpSpec { label: MUL, ins: 2, outs: 1 },
    OpSpec { label: MUL, ins: 2, outs: 1 },
    OpSpec { label: NEG, ins: 1, outs: 1 },
    OpSpec { label: COPY, ins: 1, outs: 2 },
    OpSpec { label: COPY, ins: 1, outs: 2 },
    OpSpec { label: COPY, ins: 1, outs: 2 },
    OpSpec { label: DISCARD, ins: 1, outs: 0 },
    OpSpec { label: 103, ins: 0, outs: 1 },
    OpSpec { label: 101, ins: 0, outs: 1 },
];

fn key(l: u32, i: usize, o: usize) -> OpKey {
    (l, vec![0; i], vec![0; o])
}

/// the standard reverse-derivative lenses
pub fn rd_lenses() -> OpticTable {
    let e = |l: u32, s: &[usize], t: &[usize]| Edge { label: l, src: s.to_vec(), tgt: t.to_vec() };
    let mut o = OpticTable {
        fwd: TableFunctor { obj: vec![vec![0]], ops: BTreeMap::new() },
        rev: TableFunctor { obj: vec![vec![0]], ops: BTreeMap::new() },
        residual: BTreeMap::new(),
    };
    let mut put = |k: OpKey, fwd: Diagram, rev: Diagram, m: Vec<u32>| {
        o.fwd.ops.insert(k.clone(), fwd);
        o.rev.ops.insert(k.clone(), rev);
        o.residual.insert(k, m);
    };
    // add: (x,y) |-> x+y ; dz |-> (dz,dz)
    put(key(ADD, 2, 1), Diagram::singleton(ADD, &[0, 0], &[0]), Diagram::singleton(COPY, &[0], &[0, 0]), vec![]);
    // mul: (x,y) |-> (x*y ; x, y) ; (x,y,dz) |-> (y*dz, x*dz)
    let fwd = Diagram {
        nodes: vec![0; 7],
        edges: vec![e(COPY, &[0], &[2, 3]), e(COPY, &[1], &[4, 5]), e(MUL, &[2, 4], &[6])],
        s: vec![0, 1],
        t: vec![6, 3, 5],
    };
    let rev = Diagram {
        nodes: vec![0; 7],
        edges: vec![e(COPY, &[2], &[3, 4]), e(MUL, &[1, 3], &[5]), e(MUL, &[0, 4], &[6])],
        s: vec![0, 1, 2],
        t: vec![5, 6],
    };
    put(key(MUL, 2, 1), fwd, rev, vec![0, 0]);
    put(key(NEG, 1, 1), Diagram::singleton(NEG, &[0], &[0]), Diagram::singleton(NEG, &[0], &[0]), vec![]);
    put(key(COPY, 1, 2), Diagram::singleton(COPY, &[0], &[0, 0]), Diagram::singleton(ADD, &[0, 0], &[0]), vec![]);
    put(key(DISCARD, 1, 0), Diagram::singleton(DISCARD, &[0], &[]), Diagram::singleton(CONST0, &[], &[0]), vec![]);
    for k in [101u32, 103] {
        put(key(k, 0, 1), Diagram::singleton(k, &[], &[0]), Diagram::singleton(DISCARD, &[0], &[]), vec![]);
    }
    o
}

/// independent reference: forward interpretation, then reverse accumulation of adjoints
pub fn reverse_mode(c: &Diagram, x: &[u64], dy: &[u64]) -> (Vec<u64>, Vec<u64>) {
    let n = c.nodes.len();
    let mut val: Vec<Option<u64>> = vec![None; n];
    for (i, &v) in c.s.iter().enumerate() {
        val[v] = Some(x[i]);
    }
    // topological order by repeated sweeps (small circuits)
    let mut done = vec![false; c.edges.len()];
    let mut order = vec![];
    loop {
        let mut progress = false;
        for (ei, e) in c.edges.iter().enumerate() {
            if done[ei] || e.src.iter().any(|&v| val[v].is_none()) {
                continue;
            }
            let a: Vec<u64> = e.src.iter().map(|&v| val[v].unwrap()).collect();
            let outs = super::c16::interp(e.label, &a);
            for (p, &v) in e.tgt.iter().enumerate() {
                val[v] = Some(outs[p]);
            }
            done[ei] = true;
            order.push(ei);
            progress = true;
        }
        if !progress {
            break;
        }
    }
    assert!(done.iter().all(|&d| d), "harness: circuit is not evaluable");
    let y: Vec<u64> = c.t.iter().map(|&v| val[v].unwrap()).collect();
    let mut adj = vec![0u64; n];
    for (j, &v) in c.t.iter().enumerate() {
        adj[v] = adj[v].wrapping_add(dy[j]);
    }
    for &ei in order.iter().rev() {
        let e = &c.edges[ei];
        let v = |i: usize| val[e.src[i]].unwrap();
        match e.label {
            ADD => {
                let dz = adj[e.tgt[0]];
                adj[e.src[0]] = adj[e.src[0]].wrapping_add(dz);
                adj[e.src[1]] = adj[e.src[1]].wrapping_add(dz);
            }
            MUL => {
                let dz = adj[e.tgt[0]];
                let (a, b) = (v(0), v(1));
                adj[e.src[0]] = adj[e.src[0]].wrapping_add(b.wrapping_mul(dz));
                adj[e.src[1]] = adj[e.src[1]].wrapping_add(a.wrapping_mul(dz));
            }
            NEG => {
                let dz = adj[e.tgt[0]];
                adj[e.src[0]] = adj[e.src[0]].wrapping_add(dz.wrapping_neg());
            }
            COPY => {
                let d = adj[e.tgt[0]].wrapping_add(adj[e.tgt[1]]);
                adj[e.src[0]] = adj[e.src[0]].wrapping_add(d);
            }
            _ => {} // discard, constants: zero contribution
        }
    }
    let dx: Vec<u64> = c.s.iter().map(|&v| adj[v]).collect();
    (y, dx)
}

fn derivative_case(ctx: &mut Ctx, c: &Diagram, vectors: &[(Vec<u64>, Vec<u64>)]) -> CheckResult {
    let lenses = rd_lenses();
    let ad = wf(ctx, "optic-wf", sv::op_optic_adapted(&lenses, c), "map_adapted(c)")?;
    // lax entry point must give the same diagram up to isomorphism
    let l = LOptic(lenses.clone()).map_adapted(to_lax_d(c));
    let l = wf(ctx, "optic-wf", from_lax(&l), "lax map_adapted(c)")?.strictify().map_err(|e| ctx.fail("optic-wf", e))?;
    require_iso(ctx, "lax-adapted-agrees", &l, &ad, "lax map_adapted vs strict adapt")?;
    ctx.sub("adapted-is-monogamous");
    ensure!(ctx, ad.is_monogamous(), "adapted-is-monogamous", "the adapted reverse-derivative optic of a monogamous circuit is not monogamous: {}", ad.pretty());
    for (x, dy) in vectors {
        ctx.sub("reverse-derivative");
        let (y, dx) = reverse_mode(c, x, dy);
        let mut input = x.clone();
        input.extend_from_slice(dy);
        let (got, _) = sv::op_eval(&ad, &input, &super::c16::interp);
        let Some(got) = got else {
            return Err(ctx.fail("reverse-derivative", format!("the adapted optic is not evaluable (eval returned None); adapted = {}", ad.pretty())));
        };
        let mut want = y.clone();
        want.extend_from_slice(&dx);
        ensure!(ctx, got == want, "reverse-derivative", "eval(map_adapted(c), x={:?} dy={:?}) = {:?} but (c(x), J^T dy) = {:?}", x, dy, got, want);
    }
    Ok(())
}

fn derivative(t: &mut Tape, ctx: &mut Ctx) -> CheckResult {
    ctx.class("group:derivative");
    let nin = t.range(0, ctx.mlen(3).min(40));
    let nops = t.range(0, ctx.mlen(if ctx.tier == Tier::Quick { 6 } else { 10 }).min(70));
    let c = gen::monogamous_circuit(t, POLY, nin, nops);
    let vectors: Vec<(Vec<u64>, Vec<u64>)> = (0..3)
        .map(|_| ((0..c.s.len()).map(|_| t.small_u64()).collect(), (0..c.t.len()).map(|_| t.small_u64()).collect()))
        .collect();
    ctx.set_dump(format!("c = {}\nvectors = {:?}", c.pretty(), vectors));
    derivative_case(ctx, &c, &vectors)?;
    let muls = c.edges.iter().filter(|e| e.label == MUL).count();
    let copies = c.edges.iter().filter(|e| e.label == COPY).count();
    ctx.class_if(c.s.len() >= 3 || c.t.len() >= 3, "boundary>=3");
    if muls >= 1 && copies >= 1 {
        ctx.nontrivial(&(&c, &vectors));
        if ctx.want_sample {
            ctx.sample = Some(format!("derivative: {}", ctx.dump.replace('\n', " ; ")));
        }
    }
    Ok(())
}

fn fixed(ctx: &mut Ctx) -> CheckResult {
    let e = |l: u32, s: &[usize], t: &[usize]| Edge { label: l, src: s.to_vec(), tgt: t.to_vec() };
    // x0*x1 + x2 : three inputs
    let c = Diagram { nodes: vec![0; 5], edges: vec![e(MUL, &[0, 1], &[3]), e(ADD, &[3, 2], &[4])], s: vec![0, 1, 2], t: vec![4] };
    ctx.set_dump(format!("fixed: {}", c.pretty()));
    derivative_case(ctx, &c, &[(vec![3, 5, 7], vec![2]), (vec![u64::MAX, 2, 1], vec![1])])?;
    // x |-> (x, x, x) : three outputs through two copies
    let c = Diagram { nodes: vec![0; 5], edges: vec![e(COPY, &[0], &[1, 2]), e(COPY, &[2], &[3, 4])], s: vec![0], t: vec![1, 3, 4] };
    ctx.set_dump(format!("fixed: {}", c.pretty()));
    derivative_case(ctx, &c, &[(vec![9], vec![1, 10, 100])])?;
    // square: x*x through a copy
    let c = Diagram { nodes: vec![0; 4], edges: vec![e(COPY, &[0], &[1, 2]), e(MUL, &[1, 2], &[3])], s: vec![0], t: vec![3] };
    ctx.set_dump(format!("fixed: {}", c.pretty()));
    derivative_case(ctx, &c, &[(vec![6], vec![1])])
}
