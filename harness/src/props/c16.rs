//! C16 — evaluation computes the diagram's function and refuses cyclic diagrams
use crate::engine::*;
use crate::ensure;
use crate::gen::{self, OpSpec};
use crate::kinds::vec_inst as sv;
use crate::model::{has_cycle, Diagram, Edge};
use crate::tape::Tape;

pub static PROP: Prop = Prop {
    id: "C16",
    title: "Evaluation computes the diagram's function and refuses cyclic diagrams",
    check,
    max_tape: (160, 300),
    cases: (200_000, 2_000_000),
    both_profiles: true,
    rule: "(70%) write-once DAGs over {add, sub, mul, neg, xor, and, not, const k, dup, swap, sum3, sink} on wrapping u64 with fan-out, repeated reads, permuted node and edge numbering and random inputs, compared with a memoised recursive reference interpreter, plus a second random renumbering of the same diagram; (30%) arbitrary generated diagrams for the refusal clause (None iff the dependency relation has a cycle); non-trivial = >= 3 operations, an operation whose inputs come from different depths, and a shared (fan-out) node; distinct = hash of (diagram, inputs)",
    assumptions: &["values are only compared inside the write-once domain the property names; on arbitrary diagrams only definedness (Some/None) is compared"],
    fixed: Some(fixed),
    scale: Some(super::scale::c16),
};

pub const SIG: &[OpSpec] = &[
    OpSpec { label: 0, ins: 2, outs: 1 },  // add
    OpSpec { label: 1, ins: 2, outs: 1 },  // sub
    OpSpec { label: 2, ins: 2, outs: 1 },  // mul
    OpSpec { label: 3, ins: 1, outs: 1 },  // neg
    OpSpec { label: 4, ins: 2, outs: 1 },  // xor
    OpSpec { label: 5, ins: 2, outs: 1 },  // and
    OpSpec { label: 6, ins: 1, outs: 1 },  // not
    OpSpec { label: 100, ins: 0, outs: 1 }, // const 0
    OpSpec { label: 103, ins: 0, outs: 1 }, // const 3
    OpSpec { label: 8, ins: 1, outs: 2 },  // dup
    OpSpec { label: 9, ins: 2, outs: 2 },  // swap
    OpSpec { label: 10, ins: 3, outs: 1 }, // sum3
    OpSpec { label: 11, ins: 1, outs: 0 }, // sink
];

pub fn interp(label: u32, a: &[u64]) -> Vec<u64> {
    match label {
        0 => vec![a[0].wrapping_add(a[1])],
        1 => vec![a[0].wrapping_sub(a[1])],
        2 => vec![a[0].wrapping_mul(a[1])],
        3 => vec![a[0].wrapping_neg()],
        4 => vec![a[0] ^ a[1]],
        5 => vec![a[0] & a[1]],
        6 => vec![!a[0]],
        8 => vec![a[0], a[0]],
        9 => vec![a[1], a[0]],
        10 => vec![a[0].wrapping_add(a[1]).wrapping_add(a[2])],
        11 => vec![],
        12 => vec![a[0] | a[1]],
        13 => vec![a[0].wrapping_shl((a[1] % 64) as u32)],
        14 => vec![a[0].wrapping_shr((a[1] % 64) as u32)],
        15 => vec![if a[1] == 0 { 0 } else { a[0] / a[1] }],
        // generic m -> n test operation: 400 + 10*k + n
        l if (400..500).contains(&l) => {
            let n = ((l - 400) % 10) as u64;
            let k = ((l - 400) / 10) as u64;
            let s = a.iter().enumerate().fold(k, |acc, (i, x)| acc.wrapping_mul(31).wrapping_add(x.wrapping_mul(i as u64 + 2)));
            (0..n).map(|j| s.wrapping_add(j.wrapping_mul(7))).collect()
        }
        // copy 1 -> N: 300 + N
        l if (300..400).contains(&l) => vec![a[0]; (l - 300) as usize],
        l if (100..200).contains(&l) => vec![(l - 100) as u64],
        // "shape only" operations for the refusal clause: 200 + number of outputs
        l if l >= 200 => vec![7; (l - 200) as usize],
        _ => panic!("harness: unknown operation {label}"),
    }
}

/// the reading of the signature used by C16 / C20: every binary gate is made non-commutative (second
/// argument rotated first), so that swapped arguments change the value
pub fn interp_nc(label: u32, a: &[u64]) -> Vec<u64> {
    if a.len() == 2 && label < 100 && label != 9 {
        interp(label, &[a[0], a[1].rotate_left(1) ^ 0x5555])
    } else {
        interp(label, a)
    }
}

/// reference interpreter: memoised recursion over "who writes this node"
pub fn reference(d: &Diagram, inputs: &[u64]) -> (Vec<u64>, Vec<(u32, Vec<u64>)>) {
    reference_with(d, inputs, &|e: &Edge, a: &[u64]| interp(e.label, a))
}

pub fn reference_with(d: &Diagram, inputs: &[u64], f: &dyn Fn(&Edge, &[u64]) -> Vec<u64>) -> (Vec<u64>, Vec<(u32, Vec<u64>)>) {
    #[derive(Clone, Copy)]
    enum W {
        Input(usize),
        Edge(usize, usize),
        Nobody,
    }
    let n = d.nodes.len();
    let mut writer = vec![W::Nobody; n];
    for (i, &v) in d.s.iter().enumerate() {
        writer[v] = W::Input(i);
    }
    for (ei, e) in d.edges.iter().enumerate() {
        for (p, &v) in e.tgt.iter().enumerate() {
            writer[v] = W::Edge(ei, p);
        }
    }
    let mut edge_out: Vec<Option<Vec<u64>>> = vec![None; d.edges.len()];
    fn node_val(v: usize, d: &Diagram, writer: &[W], inputs: &[u64], edge_out: &mut Vec<Option<Vec<u64>>>, f: &dyn Fn(&Edge, &[u64]) -> Vec<u64>) -> u64 {
        match writer[v] {
            W::Input(i) => inputs[i],
            W::Nobody => 0, // never read in the write-once domain; default value
            W::Edge(e, p) => {
                if edge_out[e].is_none() {
                    let args: Vec<u64> = d.edges[e].src.iter().map(|&u| node_val(u, d, writer, inputs, edge_out, f)).collect();
                    edge_out[e] = Some(f(&d.edges[e], &args));
                }
                edge_out[e].as_ref().unwrap()[p]
            }
        }
    }
    let outs: Vec<u64> = d.t.iter().map(|&v| node_val(v, d, &writer, inputs, &mut edge_out, f)).collect();
    let mut apps = vec![];
    for (ei, e) in d.edges.iter().enumerate() {
        let args: Vec<u64> = e.src.iter().map(|&u| node_val(u, d, &writer, inputs, &mut edge_out, f)).collect();
        if edge_out[ei].is_none() {
            edge_out[ei] = Some(f(e, &args));
        }
        apps.push((e.label, args));
    }
    (outs, apps)
}

pub fn eval_case(ctx: &mut Ctx, d: &Diagram, inputs: &[u64]) -> CheckResult {
    let (want, mut want_apps) = reference_with(d, inputs, &|e: &Edge, a: &[u64]| interp_nc(e.label, a));
    ctx.sub("eval-value");
    let (got, mut log) = sv::op_eval(d, inputs, &interp_nc);
    let Some(got) = got else {
        return Err(ctx.fail("eval-value", "eval returned None on an acyclic write-once diagram"));
    };
    ensure!(ctx, got == want, "eval-value", "eval = {:?} but the reference interpreter gives {:?}", got, want);
    ctx.sub("eval-applies-each-operation-once");
    log.sort();
    want_apps.sort();
    ensure!(ctx, log == want_apps, "eval-applies-each-operation-once", "operations applied {:?} but each hyperedge once on its source values is {:?}", log, want_apps);
    Ok(())
}

fn check(t: &mut Tape, ctx: &mut Ctx) -> CheckResult {
    let sz = ctx.sizes;
    if t.weighted(&[7, 3]) == 1 {
        return refusal(t, ctx);
    }
    ctx.class("group:value");
    let nin = t.range(0, ctx.mlen(3).min(70));
    let nops = t.range(0, sz.edges + 3);
    let nout = t.range(0, ctx.mlen(4).min(70));
    // medium cases: half of them with one very wide layer
    let flat = ctx.medium && t.chance(1, 2);
    ctx.class_if(flat, "wide-layer");
    let d = gen::write_once_dag_shaped(t, SIG, if flat { nin.max(1) } else { nin }, nops, nout, flat);
    let inputs: Vec<u64> = (0..d.s.len()).map(|_| t.small_u64()).collect();
    ctx.set_dump(format!("{} inputs {:?}", d.pretty(), inputs));
    eval_case(ctx, &d, &inputs)?;
    // metamorphic: a second renumbering of the same diagram
    ctx.sub("eval-renumbering-invariant");
    let np = t.permutation(d.nodes.len());
    let ep = t.permutation(d.edges.len());
    let d2 = d.renumber(&np, &ep);
    let (a, _) = sv::op_eval(&d, &inputs, &interp_nc);
    let (b, _) = sv::op_eval(&d2, &inputs, &interp_nc);
    ensure!(ctx, a == b, "eval-renumbering-invariant", "eval differs between two numberings of one diagram: {:?} vs {:?} (second numbering: {})", a, b, d2.pretty());

    // non-triviality: different depths + fan-out
    let m = d.edges.len();
    let mut depth = vec![0usize; d.nodes.len()];
    let adj = d.op_deps();
    let mut opdepth = vec![0usize; m];
    // longest path depth per op (DAG): iterate to fixpoint
    for _ in 0..m {
        for x in 0..m {
            for &y in &adj[x] {
                if opdepth[y] < opdepth[x] + 1 {
                    opdepth[y] = opdepth[x] + 1;
                }
            }
        }
    }
    for (ei, e) in d.edges.iter().enumerate() {
        for &v in &e.tgt {
            depth[v] = opdepth[ei] + 1;
        }
    }
    let mixed = d.edges.iter().any(|e| {
        let ds: Vec<usize> = e.src.iter().map(|&v| depth[v]).collect();
        ds.iter().min() != ds.iter().max()
    });
    let fanout = (0..d.nodes.len()).any(|v| d.out_degree(v) + d.t.iter().filter(|&&x| x == v).count() >= 2);
    ctx.class_if(mixed, "inputs-from-different-depths");
    ctx.class_if(fanout, "fan-out");
    if m >= 3 && mixed && fanout {
        ctx.nontrivial(&(&d, &inputs));
        if ctx.want_sample {
            ctx.sample = Some(format!("{} inputs {:?} => {:?}", d.pretty(), inputs, a));
        }
    }
    Ok(())
}

fn refusal(t: &mut Tape, ctx: &mut Ctx) -> CheckResult {
    let sz = ctx.sizes;
    ctx.class("group:refusal");
    let al = gen::alpha(t, &sz);
    let mut d = gen::diagram(t, &sz, al, ctx);
    // shape-only labels: 200 + number of targets
    for e in d.edges.iter_mut() {
        e.label = 200 + e.tgt.len() as u32;
    }
    let inputs: Vec<u64> = (0..d.s.len()).map(|_| t.choice(5) as u64).collect();
    ctx.set_dump(format!("{} inputs {:?}", d.pretty(), inputs));
    let cyclic = has_cycle(&d.op_deps());
    ctx.sub("eval-refuses-iff-cyclic");
    let (got, _) = sv::op_eval(&d, &inputs, &interp);
    ensure!(ctx, got.is_none() == cyclic, "eval-refuses-iff-cyclic", "eval returned {} but the dependency relation has a cycle = {cyclic}", if got.is_some() { "a result" } else { "None" });
    if let Some(o) = &got {
        ensure!(ctx, o.len() == d.t.len(), "eval-refuses-iff-cyclic", "eval returned {} values for {} outputs", o.len(), d.t.len());
    }
    ctx.class_if(cyclic, "cyclic");
    if d.edges.len() >= 2 {
        ctx.nontrivial(&(&d, &inputs, "refusal"));
    }
    Ok(())
}

fn fixed(ctx: &mut Ctx) -> CheckResult {
    let e = |l: u32, s: &[usize], t: &[usize]| Edge { label: l, src: s.to_vec(), tgt: t.to_vec() };
    // Dup(a)->(n2,n3); Not(b)->n4; Add(n2,n4)->n5; Not(n3)->n6; Not(n5)->n7 : successor list [C, D, C]
    let d = Diagram {
        nodes: vec![0; 8],
        edges: vec![e(8, &[0], &[2, 3]), e(6, &[1], &[4]), e(0, &[2, 4], &[5]), e(6, &[3], &[6]), e(6, &[5], &[7])],
        s: vec![0, 1],
        t: vec![7, 6],
    };
    ctx.set_dump(format!("fixed: {}", d.pretty()));
    eval_case(ctx, &d, &[5, 9])?;
    // parallel dependency of multiplicity 3 (D1)
    let d = Diagram { nodes: vec![0; 3], edges: vec![e(8, &[0], &[1, 1]), e(10, &[1, 1, 1], &[2])], s: vec![0], t: vec![2] };
    ctx.set_dump(format!("fixed: {}", d.pretty()));
    let (got, _) = sv::op_eval(&d, &[4], &interp_nc);
    ensure!(ctx, got == Some(vec![12]), "eval-value", "fixed: eval = {:?} want [12]", got);
    Ok(())
}
