//! C06 — finite functions form a category with coproducts and coequalizers
use crate::engine::*;
use crate::ensure;
use crate::kinds::vec_inst as sv;
use crate::labels::Ob;
use crate::model::{canon_partition, partition_of_pairs};
use crate::tape::Tape;
use open_hypergraphs::array::vec::VecArray;
use open_hypergraphs::category::*;
use open_hypergraphs::finite_function::{coequalizer_universal, FiniteFunction};
use open_hypergraphs::semifinite::{compose_semifinite, SemifiniteArrow, SemifiniteFunction};

pub static PROP: Prop = Prop {
    id: "C06",
    title: "Finite functions form a category with coproducts and coequalizers",
    check,
    max_tape: (200, 260),
    cases: (600_000, 6_000_000),
    both_profiles: false,
    rule: "tables of length 0..8 (thorough 0..14) over codomains 0..8, parallel / composable / non-composable pairs, (sizes, index map) pairs, (surjection, labels) pairs consistent or inconsistent on fibres; one operation group per case, compared with explicit loops on Vec<usize>; non-trivial = source >= 2 (for coequalizers additionally >= 1 pair with f(i) != g(i) and >= 2 resulting classes); distinct = hash of the generated data",
    assumptions: &["SemifiniteArrow's todo!() coproduct methods and its Identity variant are outside the statement and not exercised"],
    fixed: None,
    scale: Some(super::scale::c06),
};

type FF = sv::FF;

fn table(t: &mut Tape, maxlen: usize, target: usize) -> Vec<usize> {
    if target == 0 {
        return vec![];
    }
    let n = t.range(0, maxlen);
    match t.weighted(&[4, 1, 1]) {
        0 => (0..n).map(|_| t.choice(target)).collect(),
        1 => {
            let c = t.choice(target);
            vec![c; n]
        }
        _ => (0..n).map(|i| i % target).collect(),
    }
}

fn tb(f: &FF) -> Vec<usize> {
    f.table.0.clone()
}

fn check(t: &mut Tape, ctx: &mut Ctx) -> CheckResult {
    let maxlen = ctx.mlen(if ctx.tier == Tier::Quick { 8 } else { 14 });
    let maxcod = ctx.mlen(8);
    match t.choice(9) {
        0 => compose(t, ctx, maxlen, maxcod),
        1 => constructors(t, ctx, maxlen, maxcod),
        2 => coproducts(t, ctx, maxlen, maxcod),
        3 => monoidal(t, ctx, maxlen, maxcod),
        4 => injections(t, ctx, maxlen),
        5 | 6 => coequalizer(t, ctx, maxlen, maxcod),
        7 => universal(t, ctx, maxlen, maxcod),
        _ => semifinite(t, ctx, maxlen, maxcod),
    }
}

fn compose(t: &mut Tape, ctx: &mut Ctx, maxlen: usize, maxcod: usize) -> CheckResult {
    ctx.class("group:compose");
    let b = t.range(0, maxcod);
    let c = t.range(0, maxcod);
    let f = table(t, maxlen, b);
    // g's source: b (composable) or something else
    let gs = if t.chance(1, 4) { t.range(0, maxcod) } else { b };
    let g: Vec<usize> = if c == 0 { vec![] } else { (0..gs).map(|_| t.choice(c)).collect() };
    ctx.set_dump(format!("f = {:?} -> {} ; g = {:?} -> {}", f, b, g, c));
    let (ff_, gg) = (sv::ff(f.clone(), b), sv::ff(g.clone(), c));
    ctx.sub("compose-pointwise");
    let r = ff_.compose(&gg);
    let r2 = &ff_ >> &gg;
    let composable = b == g.len();
    ensure!(ctx, r.is_some() == composable && r2.is_some() == composable, "compose-pointwise", "compose defined = {} but codomain {} vs domain {}", r.is_some(), b, g.len());
    if let Some(r) = r {
        let want: Vec<usize> = f.iter().map(|&i| g[i]).collect();
        ensure!(ctx, tb(&r) == want && r.target == c, "compose-pointwise", "f;g = {:?} -> {} want {:?} -> {}", tb(&r), r.target, want, c);
        ensure!(ctx, r2.unwrap() == r, "compose-pointwise", ">> differs from compose");
        ensure!(ctx, r.source() == f.len() && Arrow::target(&r) == c, "compose-pointwise", "source()/target() wrong");
    } else {
        ctx.class("not-composable");
    }
    // equality of finite functions is equality of (table, codomain); of segmented arrays, of (sizes, values)
    ctx.sub("equality");
    {
        let same = sv::ff(f.clone(), b);
        let wider = sv::ff(f.clone(), b + 1);
        ensure!(ctx, ff_ == same && !(ff_ != same), "equality", "a finite function differs from its copy");
        ensure!(ctx, ff_ != wider && !(ff_ == wider), "equality", "f : {} -> {} compares equal to the same table with codomain {}", f.len(), b, b + 1);
        if !f.is_empty() && b >= 2 {
            let k = t.choice(f.len());
            let mut f2 = f.clone();
            f2[k] = (f2[k] + 1 + t.choice(b - 1)) % b;
            ensure!(ctx, (ff_ == sv::ff(f2.clone(), b)) == (f2 == f), "equality", "f compares equal to a table that differs at position {k}");
        }
        if !f.is_empty() {
            let shorter = sv::ff(f[..f.len() - 1].to_vec(), b);
            ensure!(ctx, ff_ != shorter, "equality", "f compares equal to its proper prefix");
        }
        // segmented arrays: same values, different segmentation
        let n = f.len();
        let one = sv::icf(&[f.clone()], b);
        let split = sv::icf(&[f[..n / 2].to_vec(), f[n / 2..].to_vec()], b);
        ensure!(ctx, one == sv::icf(&[f.clone()], b) && one != split, "equality", "segmented-array equality ignores the segmentation");
        ensure!(ctx, sv::icf(&[f.clone()], b + 1) != one, "equality", "segmented-array equality ignores the codomain of the values");
    }
    // identities
    ctx.sub("identity-laws");
    let idl = FF::identity(f.len());
    let idr = FF::identity(b);
    ensure!(ctx, tb(&idl) == (0..f.len()).collect::<Vec<_>>() && idl.target == f.len(), "identity-laws", "identity({}) = {:?} -> {}", f.len(), tb(&idl), idl.target);
    ensure!(ctx, idl.compose(&ff_).as_ref() == Some(&ff_) && ff_.compose(&idr).as_ref() == Some(&ff_), "identity-laws", "id;f or f;id differs from f");
    // is_injective
    ctx.sub("is-injective");
    let mut seen = vec![false; b];
    let mut inj = true;
    for &x in &f {
        if seen[x] {
            inj = false;
        }
        seen[x] = true;
    }
    ensure!(ctx, ff_.is_injective() == inj, "is-injective", "is_injective = {} want {}", ff_.is_injective(), inj);
    ctx.class_if(inj, "injective");
    if f.len() >= 2 {
        ctx.nontrivial(&("compose", &f, b, &g, c));
        if ctx.want_sample {
            ctx.sample = Some(format!("compose: {}", ctx.dump));
        }
    }
    Ok(())
}

fn constructors(t: &mut Tape, ctx: &mut Ctx, maxlen: usize, maxcod: usize) -> CheckResult {
    ctx.class("group:constructors");
    let a = t.range(0, maxlen);
    let b = t.range(0, maxcod);
    let x = t.range(0, maxcod);
    ctx.set_dump(format!("a = {a} b = {b} x = {x}"));
    ctx.sub("initial-terminal-constant");
    let i = FF::initial(b);
    ensure!(ctx, tb(&i).is_empty() && i.target == b, "initial-terminal-constant", "initial({b}) = {:?} -> {}", tb(&i), i.target);
    let tm = FF::terminal(a);
    ensure!(ctx, tb(&tm) == vec![0; a] && tm.target == 1, "initial-terminal-constant", "terminal({a}) = {:?} -> {}", tb(&tm), tm.target);
    let c = FF::constant(a, x, b);
    ensure!(ctx, tb(&c) == vec![x; a] && c.target == x + 1 + b, "initial-terminal-constant", "constant({a},{x},{b}) = {:?} -> {}", tb(&c), c.target);
    let f = sv::ff(table(t, maxlen, b), b);
    let ti = f.to_initial();
    ensure!(ctx, tb(&ti).is_empty() && ti.target == b, "initial-terminal-constant", "to_initial");
    ensure!(ctx, FF::initial_object() == 0 && <FF as Monoidal>::unit() == 0, "initial-terminal-constant", "initial object / unit is not 0");
    // injections
    ctx.sub("injections-inj0-inj1");
    let i0 = FF::inj0(a, b);
    let i1 = FF::inj1(a, b);
    ensure!(ctx, tb(&i0) == (0..a).collect::<Vec<_>>() && i0.target == a + b, "injections-inj0-inj1", "inj0({a},{b}) = {:?} -> {}", tb(&i0), i0.target);
    ensure!(ctx, tb(&i1) == (a..a + b).collect::<Vec<_>>() && i1.target == a + b, "injections-inj0-inj1", "inj1({a},{b}) = {:?} -> {}", tb(&i1), i1.target);
    // direct forms
    let k = t.range(0, maxcod);
    let d0 = f.inject0(k);
    let d1 = f.inject1(k);
    ensure!(ctx, tb(&d0) == tb(&f) && d0.target == b + k, "injections-inj0-inj1", "inject0({k}) = {:?} -> {}", tb(&d0), d0.target);
    ensure!(ctx, tb(&d1) == tb(&f).iter().map(|v| v + k).collect::<Vec<_>>() && d1.target == b + k, "injections-inj0-inj1", "inject1({k}) = {:?} -> {}", tb(&d1), d1.target);
    ensure!(ctx, f.compose(&FF::inj0(b, k)).as_ref() == Some(&d0) && f.compose(&FF::inj1(k, b)).as_ref() == Some(&d1), "injections-inj0-inj1", "inject0/inject1 differ from composing with the injection");
    // cumulative sum
    ctx.sub("cumulative-sum");
    let cs = f.cumulative_sum();
    let mut want = vec![];
    let mut acc = 0;
    for &v in &tb(&f) {
        want.push(acc);
        acc += v;
    }
    ensure!(ctx, tb(&cs) == want && cs.target == acc, "cumulative-sum", "cumulative_sum({:?}) = {:?} -> {} want {:?} -> {}", tb(&f), tb(&cs), cs.target, want, acc);
    // transpose
    ctx.sub("transpose");
    let (ta, tbb) = (t.range(0, 5), t.range(0, 5));
    let tr = FF::transpose(ta, tbb);
    let mut want = vec![0; ta * tbb];
    for r in 0..tbb {
        for c in 0..ta {
            want[r * ta + c] = c * tbb + r;
        }
    }
    ensure!(ctx, tb(&tr) == want && tr.target == ta * tbb, "transpose", "transpose({ta},{tbb}) = {:?} -> {} want {:?}", tb(&tr), tr.target, want);
    let back = FF::transpose(tbb, ta);
    if ta * tbb > 0 {
        ensure!(ctx, tr.compose(&back) == Some(FF::identity(ta * tbb)), "transpose", "transpose({ta},{tbb});transpose({tbb},{ta}) != id");
    }
    if a >= 2 {
        ctx.nontrivial(&("constructors", a, b, x, tb(&f), k, ta, tbb));
        if ctx.want_sample {
            ctx.sample = Some(format!("constructors: {} f = {:?}", ctx.dump, tb(&f)));
        }
    }
    Ok(())
}

fn coproducts(t: &mut Tape, ctx: &mut Ctx, maxlen: usize, maxcod: usize) -> CheckResult {
    ctx.class("group:coproduct");
    let c = t.range(0, maxcod);
    let c2 = if t.chance(1, 4) { t.range(0, maxcod) } else { c };
    let f = table(t, maxlen, c);
    let g = table(t, maxlen, c2);
    ctx.set_dump(format!("f = {:?} -> {} ; g = {:?} -> {}", f, c, g, c2));
    let (ff_, gg) = (sv::ff(f.clone(), c), sv::ff(g.clone(), c2));
    ctx.sub("coproduct");
    let r = ff_.coproduct(&gg);
    ensure!(ctx, r.is_some() == (c == c2) && (&ff_ + &gg).is_some() == (c == c2), "coproduct", "coproduct defined = {} but codomains {} {}", r.is_some(), c, c2);
    if let Some(r) = r {
        let want: Vec<usize> = f.iter().chain(g.iter()).copied().collect();
        ensure!(ctx, tb(&r) == want && r.target == c, "coproduct", "f+g = {:?} -> {}", tb(&r), r.target);
        // universal property with the injections
        let i0 = FF::inj0(f.len(), g.len());
        let i1 = FF::inj1(f.len(), g.len());
        ensure!(ctx, i0.compose(&r).as_ref() == Some(&ff_) && i1.compose(&r).as_ref() == Some(&gg), "coproduct", "inj;[f,g] != f/g");
    } else {
        ctx.class("codomains-differ");
    }
    if f.len() + g.len() >= 2 {
        ctx.nontrivial(&("coproduct", &f, c, &g, c2));
        if ctx.want_sample {
            ctx.sample = Some(format!("coproduct: {}", ctx.dump));
        }
    }
    Ok(())
}

fn monoidal(t: &mut Tape, ctx: &mut Ctx, maxlen: usize, maxcod: usize) -> CheckResult {
    ctx.class("group:tensor-twist");
    let (c, c2) = (t.range(0, maxcod), t.range(0, maxcod));
    let f = table(t, maxlen, c);
    let g = table(t, maxlen, c2);
    ctx.set_dump(format!("f = {:?} -> {} ; g = {:?} -> {}", f, c, g, c2));
    let (ff_, gg) = (sv::ff(f.clone(), c), sv::ff(g.clone(), c2));
    ctx.sub("tensor");
    let r = ff_.tensor(&gg);
    let want: Vec<usize> = f.iter().copied().chain(g.iter().map(|v| v + c)).collect();
    ensure!(ctx, tb(&r) == want && r.target == c + c2, "tensor", "f|g = {:?} -> {} want {:?} -> {}", tb(&r), r.target, want, c + c2);
    ensure!(ctx, (&ff_ | &gg) == r, "tensor", "| differs from tensor");
    ctx.sub("twist");
    let (a, b) = (t.range(0, maxcod), t.range(0, maxcod));
    let tw = FF::twist(a, b);
    // sigma_{a,b} : a+b -> b+a sends i<a to b+i and a+j to j
    let want: Vec<usize> = (0..a).map(|i| b + i).chain(0..b).collect();
    ensure!(ctx, tb(&tw) == want && tw.target == a + b, "twist", "twist({a},{b}) = {:?} want {:?}", tb(&tw), want);
    ensure!(ctx, tw.compose(&FF::twist(b, a)) == Some(FF::identity(a + b)), "twist", "twist({a},{b});twist({b},{a}) != id");
    // naturality: twist(|f|,|g|) ; (g|f) == (f|g) ; twist(c,c2)
    let l = FF::twist(f.len(), g.len()).compose(&gg.tensor(&ff_));
    let rr = r.compose(&FF::twist(c, c2));
    ensure!(ctx, l.is_some() && l == rr, "twist", "twist naturality fails");
    if f.len() >= 2 || g.len() >= 2 {
        ctx.nontrivial(&("monoidal", &f, c, &g, c2, a, b));
        if ctx.want_sample {
            ctx.sample = Some(format!("tensor/twist: {} a={a} b={b}", ctx.dump));
        }
    }
    Ok(())
}

fn injections(t: &mut Tape, ctx: &mut Ctx, maxlen: usize) -> CheckResult {
    ctx.class("group:blockwise-injections");
    // s : N -> K sizes ; a : A -> N
    let n = t.range(0, maxlen.min(6));
    let sizes: Vec<usize> = (0..n).map(|_| t.choice(4)).collect();
    let an = if t.chance(1, 5) { t.range(0, 6) } else { n };
    let a: Vec<usize> = if an == 0 { vec![] } else { (0..t.range(0, maxlen)).map(|_| t.choice(an)).collect() };
    let total: usize = sizes.iter().sum();
    ctx.set_dump(format!("sizes = {:?} a = {:?} -> {}", sizes, a, an));
    let s = sv::ff(sizes.clone(), total + 1);
    let af = sv::ff(a.clone(), an);
    ctx.sub("blockwise-injections");
    let r = s.injections(&af);
    ensure!(ctx, r.is_some() == (an == n), "blockwise-injections", "injections defined = {} but a's codomain {} vs {} blocks", r.is_some(), an, n);
    if let Some(r) = r {
        let mut p = vec![0; n + 1];
        for i in 0..n {
            p[i + 1] = p[i] + sizes[i];
        }
        let mut want = vec![];
        for &x in &a {
            want.extend(p[x]..p[x] + sizes[x]);
        }
        ensure!(ctx, tb(&r) == want && r.target == total, "blockwise-injections", "injections = {:?} -> {} want {:?} -> {}", tb(&r), r.target, want, total);
        ctx.class_if(sizes.iter().any(|&k| k == 0), "empty-block");
        if a.len() >= 2 && total >= 1 {
            ctx.nontrivial(&("injections", &sizes, &a));
            if ctx.want_sample {
                ctx.sample = Some(format!("injections: {} = {:?}", ctx.dump, want));
            }
        }
    }
    Ok(())
}

fn coequalizer(t: &mut Tape, ctx: &mut Ctx, maxlen: usize, maxcod: usize) -> CheckResult {
    ctx.class("group:coequalizer");
    if t.weighted(&[6, 1]) == 1 {
        return coequalizer_tournament(t, ctx);
    }
    let b = t.range(0, maxcod + 2);
    let f = table(t, maxlen, b);
    let parallel = !t.chance(1, 6);
    let (g, gb): (Vec<usize>, usize) = if parallel {
        (if b == 0 { vec![] } else { (0..f.len()).map(|_| t.choice(b)).collect() }, b)
    } else if t.chance(1, 2) {
        // different codomain
        let gb = b + 1;
        ((0..f.len()).map(|_| t.choice(gb)).collect(), gb)
    } else {
        // different length
        (if b == 0 { vec![] } else { (0..f.len() + 1).map(|_| t.choice(b)).collect() }, b)
    };
    ctx.set_dump(format!("f = {:?} -> {} ; g = {:?} -> {}", f, b, g, gb));
    let (ff_, gg) = (sv::ff(f.clone(), b), sv::ff(g.clone(), gb));
    ctx.sub("coequalizer");
    let q = ff_.coequalizer(&gg);
    let is_par = f.len() == g.len() && b == gb;
    ensure!(ctx, q.is_some() == is_par, "coequalizer", "coequalizer defined = {} but parallel = {}", q.is_some(), is_par);
    let Some(q) = q else {
        ctx.class("not-parallel");
        return Ok(());
    };
    let qt = tb(&q);
    ensure!(ctx, qt.len() == b, "coequalizer", "coequalizer has source {} want {}", qt.len(), b);
    let k = q.target;
    // surjective onto 0..k
    let mut hit = vec![false; k];
    for &c in &qt {
        ensure!(ctx, c < k, "coequalizer", "class {c} >= {k}");
        hit[c] = true;
    }
    ensure!(ctx, hit.iter().all(|&h| h), "coequalizer", "coequalizer {:?} -> {} is not surjective", qt, k);
    // partition equality with the reference union-find
    let pairs: Vec<(usize, usize)> = f.iter().copied().zip(g.iter().copied()).collect();
    let (want, wk) = partition_of_pairs(b, &pairs);
    ensure!(
        ctx,
        canon_partition(&qt) == want && k == wk,
        "coequalizer",
        "coequalizer partition {:?} ({} classes) differs from the connected components {:?} ({} classes)",
        qt,
        k,
        want,
        wk
    );
    let merges = pairs.iter().any(|(a, b)| a != b);
    if f.len() >= 2 && merges && k >= 2 {
        ctx.nontrivial(&("coequalizer", &f, &g, b));
        if ctx.want_sample {
            ctx.sample = Some(format!("coequalizer: {} => q = {:?} -> {}", ctx.dump, qt, k));
        }
    }
    Ok(())
}

/// balanced merge orders over 8..64 elements (deep union-by-rank forests)
fn coequalizer_tournament(t: &mut Tape, ctx: &mut Ctx) -> CheckResult {
    ctx.class("tournament");
    let k = t.range(3, 6);
        let (n0, pairs) = crate::gen::tournament_pairs(t, k);
    let b = n0 + t.choice(3);
    let keep = pairs.len().saturating_sub(t.choice(3));
    let f: Vec<usize> = pairs[..keep].iter().map(|p| p.0).collect();
    let g: Vec<usize> = pairs[..keep].iter().map(|p| p.1).collect();
    ctx.set_dump(format!("f = {:?} -> {} ; g = {:?} -> {}", f, b, g, b));
    ctx.sub("coequalizer");
    let q = sv::ff(f.clone(), b).coequalizer(&sv::ff(g.clone(), b)).ok_or_else(|| ctx.fail("coequalizer", "coequalizer of a parallel pair is None"))?;
    let qt = tb(&q);
    let (want, wk) = partition_of_pairs(b, &pairs[..keep]);
    ensure!(ctx, qt.len() == b && canon_partition(&qt) == want && q.target == wk, "coequalizer", "coequalizer partition {:?} ({} classes) differs from the connected components {:?} ({} classes)", qt, q.target, want, wk);
    let mut hit = vec![false; q.target];
    for &c in &qt {
        ensure!(ctx, c < q.target, "coequalizer", "class {c} >= {}", q.target);
        hit[c] = true;
    }
    ensure!(ctx, hit.iter().all(|&h| h), "coequalizer", "coequalizer is not surjective");
    ctx.nontrivial(&("tournament", &f, &g, b));
    if ctx.want_sample {
        ctx.sample = Some(format!("coequalizer (tournament order): {}", ctx.dump));
    }
    Ok(())
}

fn universal(t: &mut Tape, ctx: &mut Ctx, maxlen: usize, maxcod: usize) -> CheckResult {
    ctx.class("group:universal-map");
    // a surjection q : B -> Q as the canonical class vector of random pairs
    let b = t.range(0, maxcod + 2);
    let npairs = if b == 0 { 0 } else { t.range(0, maxlen) };
    let pairs: Vec<(usize, usize)> = (0..npairs).map(|_| (t.choice(b), t.choice(b))).collect();
    let (qv, k) = partition_of_pairs(b, &pairs);
    // any numbering of the classes is a surjection with the same fibres (word 0: canonical)
    let perm = t.permutation(k);
    let qv: Vec<usize> = qv.iter().map(|&c| perm[c]).collect();
    let q = sv::ff(qv.clone(), k);
    // f : B -> T constant on fibres, then possibly broken at one point, possibly of wrong length
    let tcod = t.range(1, maxcod);
    let per_class: Vec<usize> = (0..k).map(|_| t.choice(tcod)).collect();
    let mut f: Vec<usize> = qv.iter().map(|&c| per_class[c]).collect();
    let mode = t.weighted(&[3, 2, 1]);
    if mode == 1 && b > 0 && tcod >= 2 {
        let i = t.choice(b);
        f[i] = (f[i] + 1 + t.choice(tcod - 1)) % tcod;
    } else if mode == 2 {
        if t.chance(1, 2) && !f.is_empty() {
            f.pop();
        } else {
            f.push(t.choice(tcod));
        }
    }
    ctx.set_dump(format!("q = {:?} -> {} ; f = {:?} -> {}", qv, k, f, tcod));
    // reference: constant on fibres?
    let mut val: Vec<Option<usize>> = vec![None; k];
    let mut constant = f.len() == b;
    if constant {
        for (i, &c) in qv.iter().enumerate() {
            match val[c] {
                None => val[c] = Some(f[i]),
                Some(v) if v != f[i] => constant = false,
                _ => {}
            }
        }
    }
    ctx.sub("universal-map");
    let ffn = sv::ff(f.clone(), tcod);
    let u = q.coequalizer_universal(&ffn);
    ensure!(ctx, u.is_some() == constant, "universal-map", "universal map exists = {} but f constant on fibres (and of the right length) = {}", u.is_some(), constant);
    if let Some(u) = u {
        ensure!(ctx, u.target == tcod && u.source() == k, "universal-map", "universal map has type {} -> {} want {} -> {}", u.source(), u.target, k, tcod);
        ensure!(ctx, q.compose(&u).as_ref() == Some(&ffn), "universal-map", "q;u != f (u = {:?})", tb(&u));
    }
    // generic form on label arrays
    ctx.sub("universal-map-labels");
    let labels = VecArray(f.iter().map(|&x| Ob(x as u32)).collect::<Vec<_>>());
    let ul = coequalizer_universal(&q, &labels);
    ensure!(ctx, ul.is_some() == constant, "universal-map-labels", "generic universal map exists = {} want {}", ul.is_some(), constant);
    if let Some(ul) = ul {
        ensure!(ctx, ul.0.len() == k, "universal-map-labels", "generic universal map has length {} want {}", ul.0.len(), k);
        for (i, &c) in qv.iter().enumerate() {
            ensure!(ctx, ul.0[c] == labels.0[i], "universal-map-labels", "label of class {c} differs from the label of element {i}");
        }
    }
    ctx.class_if(!constant, "no-universal-map");
    ctx.class_if(k == b && b >= 2 && qv != (0..b).collect::<Vec<_>>(), "q-non-identity-bijection");
    if b >= 2 && k < b {
        ctx.nontrivial(&("universal", &qv, &f, tcod));
        if ctx.want_sample {
            ctx.sample = Some(format!("universal: {} exists = {}", ctx.dump, constant));
        }
    }
    Ok(())
}

fn la_clone(l: &SemifiniteFunction<sv::K, Ob>) -> SemifiniteArrow<sv::K, Ob> {
    l.clone().into()
}

fn semifinite(t: &mut Tape, ctx: &mut Ctx, maxlen: usize, maxcod: usize) -> CheckResult {
    ctx.class("group:semifinite");
    let b = t.range(0, maxcod);
    let f = table(t, maxlen, b);
    let ln = if t.chance(1, 4) { t.range(0, maxcod) } else { b };
    let labels: Vec<u32> = (0..ln).map(|_| t.choice(5) as u32).collect();
    ctx.set_dump(format!("f = {:?} -> {} ; labels = {:?}", f, b, labels));
    let ff_ = sv::ff(f.clone(), b);
    let l = SemifiniteFunction::<sv::K, Ob>(VecArray(labels.iter().map(|&x| Ob(x)).collect()));
    ctx.sub("compose-semifinite");
    let r = compose_semifinite(&ff_, &l);
    let r2 = &ff_ >> &l;
    ensure!(ctx, r.is_some() == (b == ln) && r2.is_some() == (b == ln), "compose-semifinite", "defined = {} but codomain {} vs {} labels", r.is_some(), b, ln);
    let want: Option<Vec<Ob>> = if b == ln { Some(f.iter().map(|&i| Ob(labels[i])).collect()) } else { None };
    if let Some(r) = &r {
        ensure!(ctx, Some(r.0 .0.clone()) == want, "compose-semifinite", "f >> labels = {:?}", r.0 .0);
        ensure!(ctx, r2.as_ref().map(|x| x.0 .0.clone()) == want, "compose-semifinite", ">> differs");
    }
    // SemifiniteArrow composition: Finite;Finite and Finite;Semifinite
    ctx.sub("semifinite-arrow");
    let fa: SemifiniteArrow<sv::K, Ob> = ff_.clone().into();
    let la: SemifiniteArrow<sv::K, Ob> = l.clone().into();
    match fa.compose(&la) {
        Some(SemifiniteArrow::Semifinite(x)) => ensure!(ctx, Some(x.0 .0) == want, "semifinite-arrow", "Finite;Semifinite wrong"),
        None => ensure!(ctx, want.is_none(), "semifinite-arrow", "Finite;Semifinite undefined although composable"),
        _ => return Err(ctx.fail("semifinite-arrow", "Finite;Semifinite returned a non-semifinite arrow")),
    }
    let c = t.range(0, maxcod);
    let g: Vec<usize> = if c == 0 { vec![] } else { (0..b).map(|_| t.choice(c)).collect() };
    let ga: SemifiniteArrow<sv::K, Ob> = sv::ff(g.clone(), c).into();
    match fa.compose(&ga) {
        Some(SemifiniteArrow::Finite(x)) => {
            let w: Vec<usize> = f.iter().map(|&i| g[i]).collect();
            ensure!(ctx, tb(&x) == w && x.target == c, "semifinite-arrow", "Finite;Finite wrong");
        }
        None => ensure!(ctx, g.len() != b, "semifinite-arrow", "Finite;Finite undefined although composable"),
        _ => return Err(ctx.fail("semifinite-arrow", "Finite;Finite returned a non-finite arrow")),
    }
    {
        use open_hypergraphs::semifinite::SemifiniteObject;
        ensure!(ctx, fa.source() == SemifiniteObject::Finite(f.len()) && fa.target() == SemifiniteObject::Finite(b), "semifinite-arrow", "source/target of a finite arrow");
        ensure!(ctx, la.source() == SemifiniteObject::Finite(ln) && matches!(la.target(), SemifiniteObject::Set(_)), "semifinite-arrow", "source/target of a semifinite arrow");
        match <SemifiniteArrow<sv::K, Ob> as Arrow>::identity(SemifiniteObject::Finite(b)) {
            SemifiniteArrow::Finite(i) => ensure!(ctx, i == FF::identity(b), "semifinite-arrow", "identity on a finite object"),
            _ => return Err(ctx.fail("semifinite-arrow", "identity on a finite object is not finite")),
        }
        let back: Result<SemifiniteFunction<sv::K, Ob>, ()> = SemifiniteFunction::try_from(la_clone(&l));
        ensure!(ctx, back.map(|x| x.0 .0) == Ok(l.0 .0.clone()), "semifinite-arrow", "TryFrom<SemifiniteArrow> loses the label array");
        let bad: Result<SemifiniteFunction<sv::K, Ob>, ()> = SemifiniteFunction::try_from(SemifiniteArrow::<sv::K, Ob>::Finite(ff_.clone()));
        ensure!(ctx, bad.is_err(), "semifinite-arrow", "TryFrom accepts a finite arrow");
        use num_traits::Zero;
        ensure!(ctx, l.is_zero() == labels.is_empty() && SemifiniteFunction::<sv::K, Ob>::zero().is_zero(), "semifinite-arrow", "is_zero / zero");
    }
    // a semifinite arrow on the left never composes
    ensure!(ctx, la.compose(&fa).is_none(), "semifinite-arrow", "Semifinite;Finite is defined");
    // coproduct and singleton of label arrays
    let l2 = SemifiniteFunction::<sv::K, Ob>::singleton(Ob(7));
    let cp = l.coproduct(&l2);
    let mut w: Vec<Ob> = labels.iter().map(|&x| Ob(x)).collect();
    w.push(Ob(7));
    ensure!(ctx, cp.0 .0 == w && cp.len() == w.len(), "semifinite-arrow", "label array coproduct/singleton wrong");
    // `+` sugar (by reference: always Some; by value)
    ensure!(ctx, (&l + &l2).map(|x| x.0 .0) == Some(w.clone()), "semifinite-arrow", "&a + &b differs from coproduct");
    ensure!(ctx, (l.clone() + l2.clone()).0 .0 == w, "semifinite-arrow", "a + b differs from coproduct");
    if f.len() >= 2 {
        ctx.nontrivial(&("semifinite", &f, b, &labels));
        if ctx.want_sample {
            ctx.sample = Some(format!("semifinite: {}", ctx.dump));
        }
    }
    let _ = FiniteFunction::<sv::K>::identity(0);
    Ok(())
}
