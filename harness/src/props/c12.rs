//! C12 — functor application is the generator-wise substitution it is defined by
use super::common::*;
use crate::engine::*;
use crate::ensure;
use crate::functor_model::{substitute, TableFunctor};
use crate::gen;
use crate::kinds::vec_inst as sv;
use crate::lax_ops::*;
use crate::model::Diagram;
use crate::tape::Tape;
use open_hypergraphs::lax::functor::Functor as LaxFunctor;
use open_hypergraphs::strict::functor::Functor as StrictFunctor;

pub static PROP: Prop = Prop {
    id: "C12",
    title: "Functor application is the generator-wise substitution it is defined by",
    check,
    max_tape: (520, 900),
    cases: (30_000, 600_000),
    both_profiles: false,
    rule: "a composable pair (f,g) of generated diagrams (non-monogamous, cyclic, isolated nodes, zero-arity operations included) and a functor table: object map label -> list of length 0..3, operation map (label, source type, target type) -> generated diagram of the mapped type (single operation, arbitrary small diagram, or spider-only); map_arrow through the strict trait and through the lax trait (dyn_functor and the native path) compared up to isomorphism with substitution on the plain model; functoriality laws; non-trivial = >= 1 hyperedge and (an object image of length != 1 or an operation image that is not a single operation); distinct = hash of (f, g, functor table)",
    assumptions: &["functor images are typed consistently with the object map by construction (the trait documents a possible panic otherwise)"],
    fixed: None,
    scale: None,
};

pub fn table_for(t: &mut Tape, ctx: &mut Ctx, al: gen::Alpha, ds: &[&Diagram]) -> TableFunctor {
    let keys = gen::op_keys(ds);
    gen::functor_table(t, al, al, &keys, ctx)
}

fn strict_map(ctx: &Ctx, f: &TableFunctor, d: &Diagram, what: &str) -> Result<Diagram, Violation> {
    wf(ctx, "map-arrow-wf", sv::op_map_arrow(f, d), what)
}

pub fn nontrivial_functor(f: &TableFunctor, ds: &[&Diagram]) -> bool {
    let used_labels: Vec<u32> = ds.iter().flat_map(|d| d.nodes.iter().copied()).collect();
    let obj = used_labels.iter().any(|&l| f.object(l).len() != 1);
    let ops = f.ops.values().any(|img| img.edges.len() != 1);
    ds.iter().any(|d| !d.edges.is_empty()) && (obj || ops)
}

fn check(t: &mut Tape, ctx: &mut Ctx) -> CheckResult {
    ctx.cap_medium(260);
    let sz = ctx.sizes;
    let al = gen::alpha(t, &sz);
    let ds = gen::composable(t, &sz, al, 2, ctx);
    let (f, g) = (&ds[0], &ds[1]);
    gen::classify(f, ctx);
    let table = table_for(t, ctx, al, &[f, g]);
    ctx.set_dump(format!("f = {}\ng = {}\nF = {}", f.pretty(), g.pretty(), table.pretty()));
    ctx.class_if(table.obj.iter().any(|o| o.is_empty()), "object-image-empty");
    ctx.class_if(table.obj.iter().any(|o| o.len() >= 2), "object-image-long");
    ctx.class_if(table.ops.values().any(|i| i.edges.is_empty()), "operation-image-spider-only");
    ctx.class_if(table.ops.values().any(|i| i.edges.len() >= 2), "operation-image-composite");

    // the definition
    let want = substitute(f, &table);
    let got = strict_map(ctx, &table, f, "F(f)")?;
    require_iso(ctx, "map-arrow-is-substitution", &got, &want, "F(f) (strict trait) vs substitution")?;
    ctx.sub("map-arrow-type");
    ensure!(ctx, got.source_type() == table.objects(&f.source_type()) && got.target_type() == table.objects(&f.target_type()), "map-arrow-type", "F(f) has type {:?} -> {:?}, want F(A) -> F(B) = {:?} -> {:?}", got.source_type(), got.target_type(), table.objects(&f.source_type()), table.objects(&f.target_type()));

    // the lax trait, through dyn_functor
    let lf = LFunctor(table.clone());
    let lgot = lf.map_arrow(&to_lax_d(f));
    let lgot = wf(ctx, "map-arrow-wf", from_lax(&lgot), "lax F(f)")?;
    let lgot = lgot.strictify().map_err(|e| ctx.fail("map-arrow-wf", format!("lax F(f) has label conflicts: {e}")))?;
    require_iso(ctx, "lax-map-arrow-is-substitution", &lgot, &want, "F(f) (lax trait via dyn_functor) vs substitution")?;

    // the library's own optic is a functor too: its image is the optic definition on the model
    {
        let keys = gen::op_keys(&[f]);
        let o = super::c14::optic_table(t, al, &keys, false, ctx);
        let img = wf(ctx, "map-arrow-wf", sv::op_optic(&o, f), "Optic(f) as a functor")?;
        require_iso(ctx, "optic-functor-is-definition", &img, &crate::functor_model::optic_image(f, &o).0, "Optic::map_arrow(f) (Functor impl) vs the optic definition")?;
        // ... and so is the lax optic (a user's implementation of the lax `Optic` trait)
        let limg = open_hypergraphs::lax::optic::Optic::map_arrow(&crate::lax_ops::LOptic(o.clone()), to_lax_d(f));
        let limg = wf(ctx, "map-arrow-wf", from_lax(&limg), "lax Optic(f) as a functor")?.strictify().map_err(|e| ctx.fail("map-arrow-wf", format!("lax Optic(f) has label conflicts: {e}")))?;
        require_iso(ctx, "optic-functor-is-definition", &limg, &crate::functor_model::optic_image(f, &o).0, "lax Optic::map_arrow(f) vs the optic definition")?;
    }
    // the lax functor wrapped as a strict functor (`to_dyn_functor`) and applied to the strict diagram
    {
        let dynf = open_hypergraphs::lax::functor::dyn_functor::to_dyn_functor(lf.clone());
        let img = StrictFunctor::<sv::K, _, _, _, _>::map_arrow(&dynf, &sv::to_strict(f));
        let img = wf(ctx, "map-arrow-wf", sv::from_strict(&img), "to_dyn_functor(F)(f)")?;
        require_iso(ctx, "lax-map-arrow-is-substitution", &img, &want, "F(f) (lax functor wrapped by to_dyn_functor, strict trait) vs substitution")?;
    }
    // the lax trait, through the native path (defined on quotient-free arguments)
    {
        let native = open_hypergraphs::lax::functor::try_define_map_arrow(&lf, &to_lax_d(f)).ok_or_else(|| ctx.fail("lax-native-map-arrow-is-substitution", "try_define_map_arrow returned None on a quotient-free diagram"))?;
        let native = wf(ctx, "map-arrow-wf", from_lax(&native), "native lax F(f)")?.strictify().map_err(|e| ctx.fail("map-arrow-wf", format!("native lax F(f) has label conflicts: {e}")))?;
        require_iso(ctx, "lax-native-map-arrow-is-substitution", &native, &want, "F(f) (lax trait, native path) vs substitution")?;
        ctx.sub("map-arrow-type");
        ensure!(ctx, native.source_type() == table.objects(&f.source_type()) && native.target_type() == table.objects(&f.target_type()), "map-arrow-type", "native lax F(f) has type {:?} -> {:?}, want {:?} -> {:?}", native.source_type(), native.target_type(), table.objects(&f.source_type()), table.objects(&f.target_type()));
    }

    // the lax trait on an argument that still carries pending unifications (they are part of the diagram)
    let pend = gen::pending_pairs(t, f, 3, true);
    if !pend.is_empty() {
        let lx = crate::model::Lax { d: f.clone(), q: pend.clone() };
        ctx.set_dump(format!("{}\npending(f) = {:?}", ctx.dump, pend));
        let img = lf.map_arrow(&to_lax(&lx));
        let img = wf(ctx, "map-arrow-wf", from_lax(&img), "lax F(f with pending pairs)")?.strictify().map_err(|e| ctx.fail("map-arrow-wf", format!("lax F(f) has label conflicts: {e}")))?;
        let want_p = substitute(&lx.strictify().expect("consistent"), &table);
        require_iso(ctx, "lax-map-arrow-respects-pending", &img, &want_p, "F(f) for a lax f with pending unifications vs substitution into the quotiented f")?;
        ctx.class("lax-argument-with-pending-pairs");
    }
    // lax functors whose operation images still carry (label-consistent) pending unifications
    {
        use crate::functor_model::OpKey;
        use std::collections::BTreeMap;
        let mut pend: BTreeMap<OpKey, Vec<(usize, usize)>> = BTreeMap::new();
        let mut strictified = TableFunctor { obj: table.obj.clone(), ops: BTreeMap::new() };
        let mut any = false;
        for (k, img) in &table.ops {
            let q = if t.chance(1, 2) { gen::pending_pairs(t, img, 2, true) } else { vec![] };
            any |= q.iter().any(|(a, b)| a != b);
            strictified.ops.insert(k.clone(), crate::model::Lax { d: img.clone(), q: q.clone() }.strictify().expect("consistent"));
            pend.insert(k.clone(), q);
        }
        if any {
            ctx.class("images-with-pending-pairs");
            ctx.set_dump(format!("{}\npending in images = {:?}", ctx.dump, pend));
            let lfp = LFunctorPending(table.clone(), pend);
            let img = lfp.map_arrow(&to_lax_d(f));
            let img = wf(ctx, "map-arrow-wf", from_lax(&img), "lax F(f), images with pending pairs")?.strictify().map_err(|e| ctx.fail("map-arrow-wf", format!("label conflict: {e}")))?;
            require_iso(ctx, "lax-map-arrow-images-with-pending", &img, &substitute(f, &strictified), "F(f) for a lax functor whose images carry pending unifications")?;
            let native = open_hypergraphs::lax::functor::try_define_map_arrow(&lfp, &to_lax_d(f)).ok_or_else(|| ctx.fail("lax-map-arrow-images-with-pending", "try_define_map_arrow returned None on a quotient-free diagram"))?;
            let native = wf(ctx, "map-arrow-wf", from_lax(&native), "native lax F(f), images with pending pairs")?.strictify().map_err(|e| ctx.fail("map-arrow-wf", format!("label conflict: {e}")))?;
            require_iso(ctx, "lax-map-arrow-images-with-pending", &native, &substitute(f, &strictified), "native F(f) for a lax functor whose images carry pending unifications")?;
        }
    }
    // functoriality
    let fg = f.compose(g).expect("composable");
    let l = strict_map(ctx, &table, &fg, "F(f;g)")?;
    let fg_img = (&sv::to_strict(&got) >> &sv::to_strict(&strict_map(ctx, &table, g, "F(g)")?)).ok_or_else(|| ctx.fail("preserves-composition", "F(f);F(g) undefined"))?;
    let r = wf(ctx, "map-arrow-wf", sv::from_strict(&fg_img), "F(f);F(g)")?;
    require_iso(ctx, "preserves-composition", &l, &r, "F(f;g) vs F(f);F(g)")?;
    let l = strict_map(ctx, &table, &f.juxtapose(g), "F(f|g)")?;
    let r = got.juxtapose(&strict_map(ctx, &table, g, "F(g)")?);
    require_iso(ctx, "preserves-tensor", &l, &r, "F(f|g) vs F(f)|F(g)")?;
    let a = f.source_type();
    let b = g.target_type();
    let l = strict_map(ctx, &table, &Diagram::identity(&a), "F(id)")?;
    require_iso(ctx, "preserves-identity", &l, &Diagram::identity(&table.objects(&a)), "F(id_A) vs id_{F(A)}")?;
    let l = strict_map(ctx, &table, &Diagram::twist(&a, &b), "F(twist)")?;
    require_iso(ctx, "preserves-symmetry", &l, &Diagram::twist(&table.objects(&a), &table.objects(&b)), "F(sigma_{A,B}) vs sigma_{F(A),F(B)}")?;
    // dagger: F(f†) ≅ F(f)† needs the images of the daggered operations; a functor is only given
    // on the operations of the signature, and f† has the same operations as f (dagger swaps the
    // interfaces only), so this is a law about interfaces:
    let l = strict_map(ctx, &table, &f.dagger(), "F(f†)")?;
    require_iso(ctx, "preserves-dagger", &l, &got.dagger(), "F(f†) vs F(f)†")?;

    // identity functors
    let idf = open_hypergraphs::strict::functor::identity::Identity;
    let i = StrictFunctor::<sv::K, _, _, _, _>::map_arrow(&idf, &sv::to_strict(f));
    let i = wf(ctx, "map-arrow-wf", sv::from_strict(&i), "Identity(f)")?;
    require_iso(ctx, "identity-functor", &i, f, "strict Identity.map_arrow(f) vs f")?;
    let li = open_hypergraphs::lax::functor::dyn_functor::Identity.map_arrow(&to_lax_d(f));
    let li = wf(ctx, "map-arrow-wf", from_lax(&li), "lax Identity(f)")?.strictify().map_err(|e| ctx.fail("identity-functor", e))?;
    require_iso(ctx, "identity-functor", &li, f, "lax Identity.map_arrow(f) vs f")?;

    if nontrivial_functor(&table, &[f, g]) {
        ctx.nontrivial(&(f, g, &table.obj, &table.ops));
        if ctx.want_sample {
            ctx.sample = Some(format!("{} => F(f) = {}", ctx.dump.replace('\n', " ; "), got.pretty()));
        }
    }
    Ok(())
}
