//! C15 — layering respects dependencies, is as shallow as possible, and flags cycles
use super::common::*;
use crate::engine::*;
use crate::ensure;
use crate::gen;
use crate::kinds::vec_inst as sv;
use crate::model::{on_or_downstream_of_cycle, Diagram};
use crate::tape::Tape;

pub static PROP: Prop = Prop {
    id: "C15",
    title: "Layering respects dependencies, is as shallow as possible, and flags cycles",
    check,
    max_tape: (120, 220),
    cases: (300_000, 3_000_000),
    both_profiles: true,
    rule: "generated well-formed diagrams with dependency-heavy shapes weighted up (parallel bundles, cycles with tails, hubs, repeated incidences); non-trivial = at least 2 operations and at least 1 dependency; distinct = hash of the diagram",
    assumptions: &[
        "dependency relation: y depends on x iff some target node of x is a source node of y (from the property statement)",
        "no exact layer is demanded beyond: strictly increasing along dependencies, minimum 0, number of distinct layers = longest chain",
    ],
    fixed: None,
    scale: Some(super::scale::c15),
};

pub struct LayerRef {
    pub adj: Vec<Vec<usize>>,
    pub bad: Vec<bool>,
    pub longest: usize,
}

pub fn reference(d: &Diagram) -> LayerRef {
    let adj = d.op_deps();
    let bad = on_or_downstream_of_cycle(&adj);
    // longest chain (number of operations) among visited operations: DP over the DAG of good ops
    let m = adj.len();
    let mut memo = vec![0usize; m];
    fn depth(x: usize, adj: &[Vec<usize>], bad: &[bool], memo: &mut Vec<usize>) -> usize {
        if memo[x] != 0 {
            return memo[x];
        }
        let mut best = 1;
        for &y in &adj[x] {
            if !bad[y] {
                best = best.max(1 + depth(y, adj, bad, memo));
            }
        }
        memo[x] = best;
        best
    }
    let mut longest = 0;
    for x in 0..m {
        if !bad[x] {
            longest = longest.max(depth(x, &adj, &bad, &mut memo));
        }
    }
    LayerRef { adj, bad, longest }
}

/// the validity predicate of a layering (shared with C20)
pub fn validate_layering(
    ctx: &mut Ctx,
    d: &Diagram,
    r: &LayerRef,
    order: &[usize],
    unvisited: &[usize],
) -> CheckResult {
    let m = d.edges.len();
    ctx.sub("layer-shape");
    ensure!(ctx, order.len() == m, "layer-shape", "order has {} entries for {} operations", order.len(), m);
    ensure!(ctx, unvisited.len() == m, "layer-shape", "flags have {} entries for {} operations", unvisited.len(), m);
    ctx.sub("layer-flags");
    for x in 0..m {
        ensure!(ctx, unvisited[x] <= 1, "layer-flags", "flag of operation {x} is {}", unvisited[x]);
        ensure!(
            ctx,
            (unvisited[x] == 1) == r.bad[x],
            "layer-flags",
            "operation {x}: unvisited flag {} but on/downstream of a cycle = {}; order {:?} flags {:?}",
            unvisited[x],
            r.bad[x],
            order,
            unvisited
        );
    }
    ctx.sub("layer-order");
    for x in 0..m {
        if r.bad[x] {
            continue;
        }
        for &y in &r.adj[x] {
            if !r.bad[y] {
                ensure!(
                    ctx,
                    order[x] < order[y],
                    "layer-order",
                    "operation {y} depends on {x} but layers are {} and {}; order {:?}",
                    order[y],
                    order[x],
                    order
                );
            }
        }
    }
    let mut used: Vec<usize> = (0..m).filter(|&x| !r.bad[x]).map(|x| order[x]).collect();
    used.sort_unstable();
    used.dedup();
    if !used.is_empty() {
        ctx.sub("layer-shallow");
        ensure!(ctx, used[0] == 0, "layer-shallow", "smallest layer is {} not 0; order {:?}", used[0], order);
        ensure!(
            ctx,
            used.len() == r.longest,
            "layer-shallow",
            "{} layers used but the longest dependency chain has {} operations; order {:?}",
            used.len(),
            r.longest,
            order
        );
    }
    Ok(())
}

fn check(t: &mut Tape, ctx: &mut Ctx) -> CheckResult {
    let sz = ctx.sizes;
    let al = gen::alpha(t, &sz);
    let d = gen::diagram(t, &sz, al, ctx);
    gen::classify(&d, ctx);
    ctx.set_dump(d.pretty());
    let r = reference(&d);
    let m = d.edges.len();
    let ndeps: usize = r.adj.iter().map(|a| a.len()).sum();
    ctx.class_if(r.bad.iter().any(|&b| b), "cyclic");
    ctx.class_if(
        r.bad.iter().any(|&b| b) && r.bad.iter().any(|&b| !b),
        "cycle-and-visited-part",
    );
    // multiplicity of a dependency x -> y
    let mut maxmult = 0usize;
    for x in &d.edges {
        for y in &d.edges {
            let mut c = 0;
            for v in &x.tgt {
                c += y.src.iter().filter(|&w| w == v).count();
            }
            maxmult = maxmult.max(c);
        }
    }
    ctx.class_if(maxmult > m, "multiplicity>ops");
    ctx.class_if(maxmult >= 2, "multiplicity>=2");
    ctx.class_if((0..m).any(|x| r.adj[x].contains(&x)), "self-dependent");

    let (order, unvisited) = wf(ctx, "layer-wf", sv::op_layer(&d), "layer")?;
    validate_layering(ctx, &d, &r, &order, &unvisited)?;

    // grouped form
    ctx.sub("layered-operations");
    let (groups, flags2) = sv::op_layered_operations(&d);
    ensure!(ctx, flags2 == unvisited, "layered-operations", "flags of layered_operations {:?} differ from layer {:?}", flags2, unvisited);
    for x in 0..m {
        if r.bad[x] {
            continue;
        }
        let mut places = vec![];
        for (gi, g) in groups.iter().enumerate() {
            for &y in g {
                if y == x {
                    places.push(gi);
                }
            }
        }
        ensure!(
            ctx,
            places == vec![order[x]],
            "layered-operations",
            "visited operation {x} (layer {}) appears in groups {:?}; groups {:?}",
            order[x],
            places,
            groups
        );
    }

    #[cfg(feature = "hooks")]
    hooks(ctx, &d)?;

    if m >= 2 && ndeps >= 1 {
        ctx.nontrivial(&d);
        if ctx.want_sample {
            ctx.sample = Some(format!("{} => layers {:?} unvisited {:?}", d.pretty(), order, unvisited));
        }
    }
    Ok(())
}

#[cfg(feature = "hooks")]
fn hooks(ctx: &mut Ctx, d: &Diagram) -> CheckResult {
    use open_hypergraphs::strict::verif_hooks as vh;
    let h = sv::to_strict_h(d);
    let m = d.edges.len();
    let n = d.nodes.len();
    // converse of the source incidence: node -> multiset of edges reading it
    ctx.sub("hook-converse");
    let conv = vh::converse(&h.s);
    let (lists, tgt) = wf(ctx, "hook-converse", sv::decode_icf(&conv), "converse(s)")?;
    ensure!(ctx, lists.len() == n && tgt == m, "hook-converse", "converse has {} lists over {} (want {} over {})", lists.len(), tgt, n, m);
    for v in 0..n {
        let mut want: Vec<usize> = vec![];
        for (i, e) in d.edges.iter().enumerate() {
            for &w in &e.src {
                if w == v {
                    want.push(i);
                }
            }
        }
        let mut got = lists[v].clone();
        got.sort_unstable();
        got.dedup();
        want.dedup();
        ensure!(ctx, got == want, "hook-converse", "converse at node {v}: got {:?} want {:?} (as sets)", got, want);
    }
    // operation adjacency: multiset of successors with multiplicity
    ctx.sub("hook-operation-adjacency");
    let adj = vh::operation_adjacency(&h);
    let (lists, tgt) = wf(ctx, "hook-operation-adjacency", sv::decode_icf(&adj), "operation_adjacency")?;
    ensure!(ctx, lists.len() == m && tgt == m, "hook-operation-adjacency", "shape {} over {}", lists.len(), tgt);
    let mut indeg = vec![0usize; m];
    for x in 0..m {
        let mut want = vec![];
        for y in 0..m {
            let mut c = 0;
            for v in &d.edges[x].tgt {
                c += d.edges[y].src.iter().filter(|&w| w == v).count();
            }
            for _ in 0..c {
                want.push(y);
            }
            indeg[y] += c;
        }
        let mut got = lists[x].clone();
        got.sort_unstable();
        got.dedup();
        want.dedup();
        ensure!(ctx, got == want, "hook-operation-adjacency", "successors of operation {x}: got {:?} want {:?} (as sets)", got, want);
    }
    ctx.sub("hook-indegree");
    let ind = vh::indegree(&adj);
    let got = wf(ctx, "hook-indegree", sv::check_ff(&ind, "indegree"), "indegree")?;
    // in-degree of the adjacency the library itself built (whatever multiplicities it keeps)
    let mut own = vec![0usize; m];
    for l in &lists {
        for &y in l {
            own[y] += 1;
        }
    }
    ensure!(ctx, got == own, "hook-indegree", "indegree got {:?} but the adjacency has in-degrees {:?}", got, own);
    ensure!(ctx, (0..m).all(|y| (got[y] > 0) == (indeg[y] > 0)), "hook-indegree", "indegree {:?} has a different support than the dependency relation {:?}", got, indeg);
    // node adjacency
    ctx.sub("hook-node-adjacency");
    let nadj = vh::node_adjacency(&h);
    let (lists, tgt) = wf(ctx, "hook-node-adjacency", sv::decode_icf(&nadj), "node_adjacency")?;
    ensure!(ctx, lists.len() == n && tgt == n, "hook-node-adjacency", "shape {} over {}", lists.len(), tgt);
    for v in 0..n {
        let mut want = vec![];
        for e in &d.edges {
            let c = e.src.iter().filter(|&&w| w == v).count();
            for _ in 0..c {
                want.extend(e.tgt.iter().copied());
            }
        }
        want.sort_unstable();
        want.dedup();
        let mut got = lists[v].clone();
        got.sort_unstable();
        got.dedup();
        ensure!(ctx, got == want, "hook-node-adjacency", "successors of node {v}: got {:?} want {:?} (as sets)", got, want);
    }
    // kahn on the node graph: unvisited iff on/downstream of a cycle
    ctx.sub("hook-kahn");
    let (_order, unv) = vh::kahn(&nadj);
    let unv = sv::un(&unv);
    let adjl: Vec<Vec<usize>> = lists;
    let bad = on_or_downstream_of_cycle(&adjl);
    for v in 0..n {
        ensure!(ctx, (unv[v] == 1) == bad[v], "hook-kahn", "node {v}: unvisited {} but on/downstream of cycle {}", unv[v], bad[v]);
    }
    Ok(())
}
