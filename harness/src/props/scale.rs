//! Large structured cases (run in a child process, see `Prop::scale`): adversarial merge orders
//! for the union-find behind connected components, coequalizers, composition and the lax quotient.
use crate::engine::*;
use crate::ensure;
use crate::gen::chain_pairs;
use crate::kinds::vec_inst as sv;
use crate::model::{canon_partition, partition_of_pairs, Diagram, Lax};
use open_hypergraphs::array::NaturalArray;

const SHAPES: &[(&str, usize)] = &[("chain (i+1,i)", 0), ("chain (i,i+1)", 1), ("caterpillar", 2)];

fn sizes() -> Vec<usize> {
    vec![1_000, 2_000_000]
}

pub fn c07(ctx: &mut Ctx) -> CheckResult {
    for n in sizes() {
        for (name, shape) in SHAPES {
            let pairs = chain_pairs(n, *shape);
            ctx.set_dump(format!("connected_components on a {name} with {n} nodes"));
            ctx.sub("scale-connected-components");
            let src: Vec<usize> = pairs.iter().map(|p| p.0).collect();
            let tgt: Vec<usize> = pairs.iter().map(|p| p.1).collect();
            let (cc, k) = <sv::Arr<usize> as NaturalArray<sv::K>>::connected_components(&sv::mk(src), &sv::mk(tgt), n);
            let (want, wk) = partition_of_pairs(n, &pairs);
            ensure!(ctx, k == wk && canon_partition(&cc.0) == want, "scale-connected-components", "{name}, {n} nodes: {k} components, want {wk}");
        }
    }
    Ok(())
}

pub fn c06(ctx: &mut Ctx) -> CheckResult {
    for n in sizes() {
        for (name, shape) in SHAPES {
            let pairs = chain_pairs(n, *shape);
            ctx.set_dump(format!("coequalizer of a {name} with {n} elements"));
            ctx.sub("scale-coequalizer");
            let f = sv::ff(pairs.iter().map(|p| p.0).collect(), n);
            let g = sv::ff(pairs.iter().map(|p| p.1).collect(), n);
            let q = f.coequalizer(&g).ok_or_else(|| ctx.fail("scale-coequalizer", "coequalizer of a parallel pair is None"))?;
            let (want, wk) = partition_of_pairs(n, &pairs);
            ensure!(ctx, q.target == wk && canon_partition(&q.table.0) == want, "scale-coequalizer", "{name}, {n} elements: {} classes, want {wk}", q.target);
        }
    }
    Ok(())
}

pub fn c09(ctx: &mut Ctx) -> CheckResult {
    use crate::lax_ops::*;
    for n in sizes() {
        for (name, shape) in SHAPES {
            let pairs = chain_pairs(n, *shape);
            ctx.set_dump(format!("lax quotient of {n} equal-labelled nodes unified along a {name}"));
            ctx.sub("scale-quotient");
            let l = Lax {
                d: Diagram { nodes: vec![0; n], edges: vec![crate::model::Edge { label: 1, src: vec![0, n - 1], tgt: vec![n / 2] }], s: vec![0], t: vec![n - 1] },
                q: pairs.clone(),
            };
            let mut f = to_lax(&l);
            let q = f.quotient().map_err(|_| ctx.fail("scale-quotient", format!("{name}, {n} nodes: quotient failed although all labels agree")))?;
            let (_, wk) = partition_of_pairs(n, &pairs);
            ensure!(ctx, q.target == wk && f.hypergraph.nodes.len() == wk, "scale-quotient", "{name}, {n} nodes: {} classes, want {wk}", q.target);
            ensure!(ctx, f.hypergraph.quotient.0.is_empty(), "scale-quotient", "pending pairs not cleared");
            // conflicting label at the far end: must fail and leave the diagram unchanged
            let mut l2 = l.clone();
            l2.d.nodes[n - 1] = 1;
            let mut f2 = to_lax(&l2);
            let before = f2.clone();
            ensure!(ctx, f2.quotient().is_err(), "scale-quotient", "{name}, {n} nodes: quotient succeeded although one label differs");
            ensure!(ctx, f2 == before, "scale-quotient", "{name}, {n} nodes: failed quotient changed the diagram");
        }
    }
    Ok(())
}

pub fn c01(ctx: &mut Ctx) -> CheckResult {
    // f.t[i] ~ g.s[i] forming one long alternating chain F0 G0 F1 G1 ...
    for n in [500usize, 400_000] {
        for order in 0..2 {
            ctx.set_dump(format!("composition along a boundary of {} wires forming one chain (order {order})", 2 * n - 1));
            ctx.sub("scale-compose");
            let mut ft = vec![];
            let mut gs = vec![];
            for i in 0..n {
                ft.push(i);
                gs.push(i);
                if i + 1 < n {
                    ft.push(i + 1);
                    gs.push(i);
                }
            }
            if order == 1 {
                ft.reverse();
                gs.reverse();
            }
            let f = Diagram { nodes: vec![0; n], edges: vec![], s: vec![0], t: ft };
            let g = Diagram { nodes: vec![0; n], edges: vec![], s: gs, t: vec![n - 1] };
            let got = sv::op_compose(&f, &g).map_err(|e| ctx.fail("scale-compose", e))?.ok_or_else(|| ctx.fail("scale-compose", "composition undefined although types match"))?;
            ensure!(ctx, got.nodes.len() == 1 && got.s == vec![0] && got.t == vec![0], "scale-compose", "chain of {n}+{n} nodes should collapse to one node, got {} nodes", got.nodes.len());
        }
    }
    Ok(())
}
