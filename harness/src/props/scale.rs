//! Large structured cases (run in a child process, see `Prop::scale`): adversarial merge orders
//! for the union-find behind connected components, coequalizers, composition and the lax quotient.
use crate::engine::*;
use crate::ensure;
use crate::gen::chain_pairs;
use crate::kinds::vec_inst as sv;
use crate::model::{canon_partition, partition_of_pairs, Diagram, Lax};
use open_hypergraphs::array::NaturalArray;

const SHAPES: &[(&str, usize)] = &[("chain (i+1,i)", 0), ("chain (i,i+1)", 1), ("caterpillar", 2)];

fn sizes() -> Vec<usize> {
    vec![1_000, 2_000_000]
}

pub fn c07(ctx: &mut Ctx) -> CheckResult {
    for n in sizes() {
        for (name, shape) in SHAPES {
            let pairs = chain_pairs(n, *shape);
            ctx.set_dump(format!("connected_components on a {name} with {n} nodes"));
            ctx.sub("scale-connected-components");
            let src: Vec<usize> = pairs.iter().map(|p| p.0).collect();
            let tgt: Vec<usize> = pairs.iter().map(|p| p.1).collect();
            let (cc, k) = <sv::Arr<usize> as NaturalArray<sv::K>>::connected_components(&sv::mk(src), &sv::mk(tgt), n);
            let (want, wk) = partition_of_pairs(n, &pairs);
            ensure!(ctx, k == wk && canon_partition(&cc.0) == want, "scale-connected-components", "{name}, {n} nodes: {k} components, want {wk}");
        }
    }
    Ok(())
}

pub fn c06(ctx: &mut Ctx) -> CheckResult {
    for n in sizes() {
        for (name, shape) in SHAPES {
            let pairs = chain_pairs(n, *shape);
            ctx.set_dump(format!("coequalizer of a {name} with {n} elements"));
            ctx.sub("scale-coequalizer");
            let f = sv::ff(pairs.iter().map(|p| p.0).collect(), n);
            let g = sv::ff(pairs.iter().map(|p| p.1).collect(), n);
            let q = f.coequalizer(&g).ok_or_else(|| ctx.fail("scale-coequalizer", "coequalizer of a parallel pair is None"))?;
            let (want, wk) = partition_of_pairs(n, &pairs);
            ensure!(ctx, q.target == wk && canon_partition(&q.table.0) == want, "scale-coequalizer", "{name}, {n} elements: {} classes, want {wk}", q.target);
        }
    }
    Ok(())
}

pub fn c09(ctx: &mut Ctx) -> CheckResult {
    use crate::lax_ops::*;
    for n in sizes() {
        for (name, shape) in SHAPES {
            let pairs = chain_pairs(n, *shape);
            ctx.set_dump(format!("lax quotient of {n} equal-labelled nodes unified along a {name}"));
            ctx.sub("scale-quotient");
            let l = Lax {
                d: Diagram { nodes: vec![0; n], edges: vec![crate::model::Edge { label: 1, src: vec![0, n - 1], tgt: vec![n / 2] }], s: vec![0], t: vec![n - 1] },
                q: pairs.clone(),
            };
            let mut f = to_lax(&l);
            let q = f.quotient().map_err(|_| ctx.fail("scale-quotient", format!("{name}, {n} nodes: quotient failed although all labels agree")))?;
            let (_, wk) = partition_of_pairs(n, &pairs);
            ensure!(ctx, q.target == wk && f.hypergraph.nodes.len() == wk, "scale-quotient", "{name}, {n} nodes: {} classes, want {wk}", q.target);
            ensure!(ctx, f.hypergraph.quotient.0.is_empty(), "scale-quotient", "pending pairs not cleared");
            // conflicting label at the far end: must fail and leave the diagram unchanged
            let mut l2 = l.clone();
            l2.d.nodes[n - 1] = 1;
            let mut f2 = to_lax(&l2);
            let before = f2.clone();
            ensure!(ctx, f2.quotient().is_err(), "scale-quotient", "{name}, {n} nodes: quotient succeeded although one label differs");
            ensure!(ctx, f2 == before, "scale-quotient", "{name}, {n} nodes: failed quotient changed the diagram");
        }
    }
    Ok(())
}

pub fn c01(ctx: &mut Ctx) -> CheckResult {
    // f.t[i] ~ g.s[i] forming one long alternating chain F0 G0 F1 G1 ...
    for n in [500usize, 400_000] {
        for order in 0..2 {
            ctx.set_dump(format!("composition along a boundary of {} wires forming one chain (order {order})", 2 * n - 1));
            ctx.sub("scale-compose");
            let mut ft = vec![];
            let mut gs = vec![];
            for i in 0..n {
                ft.push(i);
                gs.push(i);
                if i + 1 < n {
                    ft.push(i + 1);
                    gs.push(i);
                }
            }
            if order == 1 {
                ft.reverse();
                gs.reverse();
            }
            let f = Diagram { nodes: vec![0; n], edges: vec![], s: vec![0], t: ft };
            let g = Diagram { nodes: vec![0; n], edges: vec![], s: gs, t: vec![n - 1] };
            let got = sv::op_compose(&f, &g).map_err(|e| ctx.fail("scale-compose", e))?.ok_or_else(|| ctx.fail("scale-compose", "composition undefined although types match"))?;
            ensure!(ctx, got.nodes.len() == 1 && got.s == vec![0] && got.t == vec![0], "scale-compose", "chain of {n}+{n} nodes should collapse to one node, got {} nodes", got.nodes.len());
        }
    }
    Ok(())
}

/// a path of `n` unary operations: operation i reads node i and writes node i+1
fn path(n: usize, labels: impl Fn(usize) -> u32, closed: bool) -> Diagram {
    let nodes = if closed { n } else { n + 1 };
    Diagram {
        nodes: vec![0; nodes],
        edges: (0..n).map(|i| crate::model::Edge { label: labels(i), src: vec![i], tgt: vec![(i + 1) % nodes] }).collect(),
        s: if closed { vec![] } else { vec![0] },
        t: if closed { vec![] } else { vec![n] },
    }
}

/// `n` operations 0 -> 1 sharing nothing (one layer), numbered backwards
fn wide(n: usize) -> Diagram {
    Diagram {
        nodes: vec![0; 2 * n],
        edges: (0..n).map(|i| crate::model::Edge { label: 3, src: vec![2 * (n - 1 - i)], tgt: vec![2 * (n - 1 - i) + 1] }).collect(),
        s: (0..n).map(|i| 2 * i).collect(),
        t: (0..n).map(|i| 2 * i + 1).collect(),
    }
}

fn deep_sizes() -> Vec<usize> {
    vec![300, 8_000]
}

pub fn c15(ctx: &mut Ctx) -> CheckResult {
    for n in deep_sizes() {
        // operations listed in reverse order of dependency, so position and layer differ
        let d = {
            let mut d = path(n, |_| 3, false);
            d.edges.reverse();
            d
        };
        ctx.set_dump(format!("layering of a path of {n} unary operations (listed last-first)"));
        ctx.sub("scale-layer");
        let (order, unvisited) = sv::op_layer(&d).map_err(|e| ctx.fail("scale-layer", e))?;
        ensure!(ctx, unvisited.iter().all(|&u| u == 0), "scale-layer", "path of {n}: some operation flagged unvisited");
        ensure!(ctx, (0..n).all(|i| order[i] == n - 1 - i), "scale-layer", "path of {n}: operation i should be in layer n-1-i");
        let (groups, _) = sv::op_layered_operations(&d);
        ensure!(ctx, groups.len() == n && groups.iter().enumerate().all(|(l, g)| g == &vec![n - 1 - l]), "scale-layer", "path of {n}: layered_operations should list one operation per layer");

        ctx.set_dump(format!("layering of a cycle of {n} unary operations with a tail of {n}"));
        let mut c = path(n, |_| 3, true);
        // tail hanging off the cycle: never visited either; and an independent prefix: visited
        let base = c.nodes.len();
        c.nodes.extend(vec![0; n + 2]);
        for i in 0..n {
            c.edges.push(crate::model::Edge { label: 3, src: vec![if i == 0 { 0 } else { base + i - 1 }], tgt: vec![base + i] });
        }
        c.edges.push(crate::model::Edge { label: 3, src: vec![base + n], tgt: vec![base + n + 1] });
        let (order, unvisited) = sv::op_layer(&c).map_err(|e| ctx.fail("scale-layer", e))?;
        ensure!(ctx, (0..2 * n).all(|i| unvisited[i] != 0), "scale-layer", "cycle of {n} with tail: an operation on or behind the cycle was reported visited");
        ensure!(ctx, unvisited[2 * n] == 0 && order[2 * n] == 0, "scale-layer", "cycle of {n} with tail: the independent operation should be visited in layer 0");
    }
    for n in [1_000usize, 1_000_000] {
        ctx.set_dump(format!("layering of {n} independent operations"));
        let d = wide(n);
        let (order, unvisited) = sv::op_layer(&d).map_err(|e| ctx.fail("scale-layer", e))?;
        ensure!(ctx, unvisited.iter().all(|&u| u == 0) && order.iter().all(|&l| l == 0), "scale-layer", "{n} independent operations: all belong to layer 0");
    }
    Ok(())
}

pub fn c16(ctx: &mut Ctx) -> CheckResult {
    use super::c16::interp_nc;
    for n in [300usize, 2_500] {
        // not, neg, not, neg, ...: -(!x) = x + 1
        let mut d = path(2 * n, |i| if i % 2 == 0 { 6 } else { 3 }, false);
        d.edges.reverse();
        ctx.set_dump(format!("eval of a path of {} alternating not/neg operations (listed last-first)", 2 * n));
        ctx.sub("scale-eval");
        let (got, log) = sv::op_eval(&d, &[41], &interp_nc);
        ensure!(ctx, got == Some(vec![41 + n as u64]), "scale-eval", "path of {} not/neg on 41: got {:?}, want {}", 2 * n, got, 41 + n as u64);
        ensure!(ctx, log.len() == 2 * n, "scale-eval", "path of {}: {} operations applied", 2 * n, log.len());
        // closed into a cycle: must refuse
        let c = path(n, |_| 3, true);
        let (got, _) = sv::op_eval(&c, &[], &interp_nc);
        ensure!(ctx, got.is_none(), "scale-eval", "cycle of {n} operations evaluated to {:?}", got);
    }
    // (eval walks one layer per *possible* depth, so its cost is quadratic in the number of operations)
    for n in [1_000usize, 10_000] {
        let d = wide(n);
        ctx.set_dump(format!("eval of {n} independent neg operations"));
        let inputs: Vec<u64> = (0..n as u64).collect();
        let (got, _) = sv::op_eval(&d, &inputs, &interp_nc);
        let want: Vec<u64> = inputs.iter().map(|x| x.wrapping_neg()).collect();
        ensure!(ctx, got == Some(want), "scale-eval", "{n} independent neg operations: wrong values");
    }
    Ok(())
}

pub fn c17(ctx: &mut Ctx) -> CheckResult {
    for n in deep_sizes() {
        let d = path(n, |_| 3, false);
        ctx.set_dump(format!("path / cycle of {n} unary operations"));
        ctx.sub("scale-acyclic");
        ensure!(ctx, sv::op_is_acyclic(&d) && sv::op_is_acyclic_h(&d), "scale-acyclic", "path of {n} reported cyclic");
        ensure!(ctx, sv::op_is_monogamous(&d), "scale-acyclic", "path of {n} with its ends as interfaces reported non-monogamous");
        let (ind, outd) = sv::op_degrees(&d);
        ensure!(ctx, (0..=n).all(|v| ind[v] == (v > 0) as usize && outd[v] == (v < n) as usize), "scale-acyclic", "path of {n}: wrong degrees");
        let mut c = path(n, |_| 3, true);
        ensure!(ctx, !sv::op_is_acyclic(&c) && !sv::op_is_acyclic_h(&c), "scale-acyclic", "cycle of {n} reported acyclic");
        // a cycle is not monogamous only if interfaces touch it
        ensure!(ctx, sv::op_is_monogamous(&c), "scale-acyclic", "cycle of {n} without interfaces is monogamous (every node has in- and out-degree 1)");
        c.s = vec![0];
        ensure!(ctx, !sv::op_is_monogamous(&c), "scale-acyclic", "cycle of {n} with a source on it reported monogamous");
    }
    Ok(())
}

pub fn c18(ctx: &mut Ctx) -> CheckResult {
    for n in deep_sizes() {
        let g = path(n, |_| 3, false);
        let g = Diagram { s: vec![], t: vec![], ..g };
        // sub-path [a, b): convex; two ends without the middle: a monomorphism that is not convex
        let (a, b) = (n / 3, 2 * n / 3);
        ctx.sub("scale-convex");
        ctx.set_dump(format!("middle third of a path of {n} operations, and the path minus its middle third"));
        let mid = Diagram { nodes: vec![0; b - a + 1], edges: (0..b - a).map(|i| crate::model::Edge { label: 3, src: vec![i], tgt: vec![i + 1] }).collect(), s: vec![], t: vec![] };
        let w: Vec<usize> = (a..=b).collect();
        let x: Vec<usize> = (a..b).collect();
        let (outcome, preds) = sv::op_arrow(&mid, &g, (&w, n + 1), (&x, n));
        ensure!(ctx, outcome == "Ok" && preds == Some((true, true)), "scale-convex", "middle third of a path of {n}: {outcome} {:?}, want a convex monomorphism", preds);
        // both outer thirds
        let k1 = a;
        let k2 = n - b;
        let mut outer = Diagram { nodes: vec![0; k1 + 1 + k2 + 1], edges: vec![], s: vec![], t: vec![] };
        let mut w = vec![];
        let mut x = vec![];
        for i in 0..=k1 {
            w.push(i);
        }
        for i in 0..=k2 {
            w.push(b + i);
        }
        for i in 0..k1 {
            outer.edges.push(crate::model::Edge { label: 3, src: vec![i], tgt: vec![i + 1] });
            x.push(i);
        }
        for i in 0..k2 {
            outer.edges.push(crate::model::Edge { label: 3, src: vec![k1 + 1 + i], tgt: vec![k1 + 2 + i] });
            x.push(b + i);
        }
        let (outcome, preds) = sv::op_arrow(&outer, &g, (&w, n + 1), (&x, n));
        ensure!(ctx, outcome == "Ok" && preds == Some((true, false)), "scale-convex", "path of {n} minus its middle third: {outcome} {:?}, want a monomorphism that is not convex", preds);
    }
    Ok(())
}
