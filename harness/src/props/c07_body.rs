// Included once per array backend (K, Arr, mk, un in scope via `use`): element-wise contract of
// the array primitives, compared with scalar reference loops.

use crate::engine::*;
use crate::ensure;
use crate::model::{canon_partition, partition_of_pairs};
use crate::tape::Tape;
use core::ops::Bound;
use open_hypergraphs::array::{Array, NaturalArray, OrdArray};

type A<T> = Arr<T>;

fn arr_usize(t: &mut Tape, maxlen: usize, bound: usize) -> Vec<usize> {
    let n = t.range(0, maxlen);
    (0..n).map(|_| t.choice(bound.max(1))).collect()
}
fn arr_i16(t: &mut Tape, maxlen: usize) -> Vec<i16> {
    let n = t.range(0, maxlen);
    (0..n).map(|_| t.choice(7) as i16 - 3).collect()
}

pub fn run(t: &mut Tape, ctx: &mut Ctx) -> CheckResult {
    let maxlen = ctx.mlen(if ctx.tier == Tier::Quick { 12 } else { 20 });
    match t.choice(10) {
        0 => basic(t, ctx, maxlen),
        1 => ranges(t, ctx, maxlen),
        2 => gather_scatter(t, ctx, maxlen),
        3 => scatter_assign(t, ctx, maxlen),
        4 => sorting(t, ctx, maxlen),
        5 => sums(t, ctx, maxlen),
        6 => repeat_arange(t, ctx, maxlen),
        7 => arithmetic(t, ctx, maxlen),
        8 => counting(t, ctx, maxlen),
        _ => components(t, ctx, maxlen),
    }
}

fn basic(t: &mut Tape, ctx: &mut Ctx, maxlen: usize) -> CheckResult {
    ctx.class("group:basic");
    let x = arr_i16(t, maxlen);
    let y = arr_i16(t, maxlen);
    ctx.set_dump(format!("x = {:?} y = {:?}", x, y));
    ctx.sub("basic");
    let (ax, ay): (A<i16>, A<i16>) = (mk(x.clone()), mk(y.clone()));
    let e: A<i16> = Array::<K, i16>::empty();
    ensure!(ctx, un(&e).is_empty() && Array::<K, i16>::len(&e) == 0 && Array::<K, i16>::is_empty(&e), "basic", "empty() is not empty");
    ensure!(ctx, Array::<K, i16>::len(&ax) == x.len() && Array::<K, i16>::is_empty(&ax) == x.is_empty(), "basic", "len/is_empty wrong");
    let c = ax.concatenate(&ay);
    let want: Vec<i16> = x.iter().chain(y.iter()).copied().collect();
    ensure!(ctx, un(&c) == want, "basic", "concatenate = {:?}", un(&c));
    let n = t.range(0, maxlen);
    let f: A<i16> = Array::<K, i16>::fill(5, n);
    ensure!(ctx, un(&f) == vec![5i16; n], "basic", "fill(5,{n}) = {:?}", un(&f));
    let fs: A<i16> = Array::<K, i16>::from_slice(&x[..]);
    ensure!(ctx, un(&fs) == x, "basic", "from_slice differs");
    for (i, &v) in x.iter().enumerate() {
        ensure!(ctx, ax.get(i) == v, "basic", "get({i}) = {} want {v}", ax.get(i));
    }
    // usize arrays: the same generic primitives
    let u = arr_usize(t, maxlen, ctx.vb(9));
    let au: A<usize> = mk(u.clone());
    ensure!(ctx, un(&au.concatenate(&au)).len() == 2 * u.len(), "basic", "usize concatenate length");
    if x.len() >= 2 {
        ctx.nontrivial(&("basic", &x, &y, n));
        if ctx.want_sample {
            ctx.sample = Some(format!("basic: {}", ctx.dump));
        }
    }
    Ok(())
}

fn ranges(t: &mut Tape, ctx: &mut Ctx, maxlen: usize) -> CheckResult {
    ctx.class("group:ranges");
    let x = arr_i16(t, maxlen);
    let n = x.len();
    let ax: A<i16> = mk(x.clone());
    let a = t.range(0, n);
    let b = t.range(a, n);
    ctx.set_dump(format!("x = {:?} a = {a} b = {b}", x));
    ctx.sub("ranges");
    macro_rules! chk {
        ($r:expr, $lo:expr, $hi:expr, $name:expr) => {{
            let r = Array::<K, i16>::to_range(&ax, $r);
            ensure!(ctx, r.start == $lo && r.end == $hi, "ranges", "to_range({}) = {}..{} want {}..{}", $name, r.start, r.end, $lo, $hi);
            let s = ax.get_range($r);
            ensure!(ctx, s == &x[$lo..$hi], "ranges", "get_range({}) = {:?} want {:?}", $name, s, &x[$lo..$hi]);
            // the same range form as the destination of a write
            let v: Vec<i16> = (0..$hi - $lo).map(|i| 100 + i as i16).collect();
            let mut m = ax.clone();
            m.set_range($r, &mk(v.clone()));
            let mut want = x.clone();
            want[$lo..$hi].copy_from_slice(&v);
            ensure!(ctx, un(&m) == want, "set-range", "set_range({}) = {:?} want {:?}", $name, un(&m), want);
        }};
    }
    chk!(.., 0, n, "..");
    chk!(a.., a, n, "a..");
    chk!(..b, 0, b, "..b");
    chk!(a..b, a, b, "a..b");
    if b < n {
        chk!(..=b, 0, b + 1, "..=b");
        chk!(a..=b, a, b + 1, "a..=b");
        chk!((Bound::Included(a), Bound::Included(b)), a, b + 1, "(Included a, Included b)");
        ctx.class("inclusive-range");
    }
    chk!((Bound::Included(a), Bound::Excluded(b)), a, b, "(Included a, Excluded b)");
    chk!((Bound::Unbounded, Bound::Excluded(b)), 0, b, "(Unbounded, Excluded b)");
    if a < b {
        chk!((Bound::Excluded(a), Bound::Excluded(b)), a + 1, b, "(Excluded a, Excluded b)");
        chk!((Bound::Excluded(a), Bound::Unbounded), a + 1, n, "(Excluded a, Unbounded)");
    }
    // set_range
    ctx.sub("set-range");
    let v: Vec<i16> = (0..b - a).map(|i| 100 + i as i16).collect();
    let mut m = ax.clone();
    m.set_range(a..b, &mk(v.clone()));
    let mut want = x.clone();
    want[a..b].copy_from_slice(&v);
    ensure!(ctx, un(&m) == want, "set-range", "set_range(a..b) = {:?} want {:?}", un(&m), want);
    if b < n && a <= b {
        let v2: Vec<i16> = (0..b + 1 - a).map(|i| 50 + i as i16).collect();
        let mut m = ax.clone();
        m.set_range(a..=b, &mk(v2.clone()));
        let mut want = x.clone();
        want[a..=b].copy_from_slice(&v2);
        ensure!(ctx, un(&m) == want, "set-range", "set_range(a..=b) = {:?} want {:?}", un(&m), want);
    }
    if n >= 2 {
        ctx.nontrivial(&("ranges", &x, a, b));
        if ctx.want_sample {
            ctx.sample = Some(format!("ranges: {}", ctx.dump));
        }
    }
    Ok(())
}

fn gather_scatter(t: &mut Tape, ctx: &mut Ctx, maxlen: usize) -> CheckResult {
    ctx.class("group:gather-scatter");
    let x = arr_i16(t, maxlen);
    let ax: A<i16> = mk(x.clone());
    let idx: Vec<usize> = if x.is_empty() { vec![] } else { (0..t.range(0, maxlen)).map(|_| t.choice(x.len())).collect() };
    ctx.sub("gather");
    let g = ax.gather(&idx[..]);
    let want: Vec<i16> = idx.iter().map(|&i| x[i]).collect();
    ctx.set_dump(format!("x = {:?} idx = {:?}", x, idx));
    ensure!(ctx, un(&g) == want, "gather", "gather = {:?} want {:?}", un(&g), want);
    // out-of-range gather must panic (documented)
    if !x.is_empty() {
        let bad = vec![x.len()];
        let r = lib(|| ax.gather(&bad[..]));
        ensure!(ctx, r.is_err(), "gather", "gather with an out-of-range index did not panic");
    }
    // scatter: x.scatter(sidx, n) with sidx of the same length as x
    ctx.sub("scatter");
    let n = t.range(0, maxlen);
    if n > 0 || x.is_empty() {
        let sidx: Vec<usize> = x.iter().map(|_| t.choice(n.max(1))).collect();
        let s = ax.scatter(&sidx[..], n);
        let got = un(&s);
        ctx.set_dump(format!("x = {:?} scatter idx = {:?} n = {n}", x, sidx));
        if x.is_empty() {
            ensure!(ctx, got.is_empty() || got.len() == n, "scatter", "scatter of an empty array has length {}", got.len());
        } else {
            ensure!(ctx, got.len() == n, "scatter", "scatter has length {} want {n}", got.len());
            // the scalar definition is the loop `y[idx[i]] = x[i]` in index order: the last write wins
            let mut last: Vec<Option<i16>> = vec![None; n];
            for (k, &i) in sidx.iter().enumerate() {
                last[i] = Some(x[k]);
            }
            for i in 0..n {
                if let Some(v) = last[i] {
                    ensure!(ctx, got[i] == v, "scatter", "scatter slot {i} = {} want {v}; result {:?}", got[i], got);
                }
            }
            ctx.class_if(last.iter().any(|l| l.is_none()), "unwritten-slot");
            let mut s2 = sidx.clone();
            s2.sort_unstable();
            ctx.class_if(s2.windows(2).any(|w| w[0] == w[1]), "duplicate-scatter-index");
        }
        // out of range index must panic
        if !x.is_empty() {
            let mut bad = sidx.clone();
            bad[0] = n;
            let r = lib(|| ax.scatter(&bad[..], n));
            ensure!(ctx, r.is_err(), "scatter", "scatter with an index >= n did not panic");
        }
    }
    if x.len() >= 2 {
        ctx.nontrivial(&("gather-scatter", &x, &idx, n));
        if ctx.want_sample {
            ctx.sample = Some(format!("gather/scatter: {}", ctx.dump));
        }
    }
    Ok(())
}

fn scatter_assign(t: &mut Tape, ctx: &mut Ctx, maxlen: usize) -> CheckResult {
    ctx.class("group:scatter-assign");
    let x = arr_i16(t, maxlen);
    let n = x.len();
    let k = if n == 0 { 0 } else { t.range(0, maxlen) };
    let distinct = t.chance(1, 2);
    let ixs: Vec<usize> = if distinct {
        let p = t.permutation(n);
        p.into_iter().take(k.min(n)).collect()
    } else {
        (0..k).map(|_| t.choice(n)).collect()
    };
    let vals: Vec<i16> = ixs.iter().enumerate().map(|(i, _)| 100 + i as i16).collect();
    ctx.set_dump(format!("x = {:?} ixs = {:?} vals = {:?}", x, ixs, vals));
    ctx.sub("scatter-assign");
    let mut m: A<i16> = mk(x.clone());
    m.scatter_assign(&mk(ixs.clone()), mk(vals.clone()));
    let mut want = x.clone();
    for (i, &ix) in ixs.iter().enumerate() {
        want[ix] = vals[i];
    }
    ensure!(ctx, un(&m) == want, "scatter-assign", "scatter_assign = {:?} want {:?}", un(&m), want);
    ctx.sub("scatter-assign-constant");
    let mut m: A<i16> = mk(x.clone());
    m.scatter_assign_constant(&mk(ixs.clone()), -7);
    let mut want = x.clone();
    for &ix in &ixs {
        want[ix] = -7;
    }
    ensure!(ctx, un(&m) == want, "scatter-assign-constant", "scatter_assign_constant = {:?} want {:?}", un(&m), want);
    // scatter_sub_assign on naturals: self[ixs[i]] -= rhs[i] for every i, in order
    ctx.sub("scatter-sub-assign");
    let base: Vec<usize> = (0..n).map(|_| 1000 + t.choice(10)).collect(); // large enough: no underflow for any number of repeats
    let rhs: Vec<usize> = ixs.iter().map(|_| t.choice(3)).collect();
    let mut m: A<usize> = mk(base.clone());
    m.scatter_sub_assign(&mk(ixs.clone()), &mk(rhs.clone()));
    let mut want = base.clone();
    for (i, &ix) in ixs.iter().enumerate() {
        want[ix] -= rhs[i];
    }
    ensure!(ctx, un(&m) == want, "scatter-sub-assign", "scatter_sub_assign({:?} ; {:?} ; {:?}) = {:?} want {:?}", base, ixs, rhs, un(&m), want);
    ctx.class_if(!distinct, "possibly-duplicate-indices");
    if n >= 2 && !ixs.is_empty() {
        ctx.nontrivial(&("scatter-assign", &x, &ixs, &base, &rhs));
        if ctx.want_sample {
            ctx.sample = Some(format!("scatter-assign: {}", ctx.dump));
        }
    }
    Ok(())
}

fn sorting(t: &mut Tape, ctx: &mut Ctx, maxlen: usize) -> CheckResult {
    ctx.class("group:sorting");
    let x = arr_usize(t, maxlen, ctx.vb(5));
    let ax: A<usize> = mk(x.clone());
    ctx.set_dump(format!("x = {:?}", x));
    ctx.sub("argsort");
    let p = un(&ax.argsort());
    let mut sp = p.clone();
    sp.sort_unstable();
    ensure!(ctx, sp == (0..x.len()).collect::<Vec<_>>(), "argsort", "argsort {:?} is not a permutation", p);
    let g: Vec<usize> = p.iter().map(|&i| x[i]).collect();
    ensure!(ctx, g.windows(2).all(|w| w[0] <= w[1]), "argsort", "gather by argsort is not monotone: {:?}", g);
    // generic element type
    let y = arr_i16(t, maxlen);
    let ay: A<i16> = mk(y.clone());
    let p = un(&ay.argsort());
    let mut sp = p.clone();
    sp.sort_unstable();
    ensure!(ctx, sp == (0..y.len()).collect::<Vec<_>>(), "argsort", "argsort(i16) {:?} is not a permutation", p);
    ensure!(ctx, p.windows(2).all(|w| y[w[0]] <= y[w[1]]), "argsort", "argsort(i16) does not sort");
    // sort_by: values sorted by key - any sorting permutation of the key is acceptable
    ctx.sub("sort-by");
    // arbitrary (in particular: not sorted) values; distinct, so that each can be traced
    let vals: Vec<usize> = x.iter().enumerate().map(|(i, _)| 1000 * t.choice(50) + i).collect();
    let r = un(&mk(vals.clone()).sort_by(&ax));
    ensure!(ctx, r.len() == x.len(), "sort-by", "sort_by length");
    let mut sk = x.clone();
    sk.sort_unstable();
    let mut pos = 0;
    while pos < sk.len() {
        let key = sk[pos];
        let mut end = pos;
        while end < sk.len() && sk[end] == key {
            end += 1;
        }
        let mut got: Vec<usize> = r[pos..end].to_vec();
        got.sort_unstable();
        let mut want: Vec<usize> = (0..x.len()).filter(|&i| x[i] == key).map(|i| vals[i]).collect();
        want.sort_unstable();
        ensure!(ctx, got == want, "sort-by", "sort_by: values for key {key} are {:?} want {:?} (result {:?})", got, want, r);
        pos = end;
    }
    ctx.class_if(sk.windows(2).any(|w| w[0] == w[1]), "ties");
    if x.len() >= 2 {
        ctx.nontrivial(&("sorting", &x, &y, &vals));
        if ctx.want_sample {
            ctx.sample = Some(format!("sorting: x = {:?} argsort = {:?}", x, un(&ax.argsort())));
        }
    }
    Ok(())
}

fn sums(t: &mut Tape, ctx: &mut Ctx, maxlen: usize) -> CheckResult {
    ctx.class("group:sums");
    let x = arr_usize(t, maxlen, ctx.vb(6));
    let ax: A<usize> = mk(x.clone());
    ctx.set_dump(format!("x = {:?}", x));
    ctx.sub("max-sum-cumsum");
    ensure!(ctx, ax.max() == x.iter().copied().max(), "max-sum-cumsum", "max = {:?}", ax.max());
    ensure!(ctx, ax.sum() == x.iter().sum::<usize>(), "max-sum-cumsum", "sum = {}", ax.sum());
    let cs = un(&ax.cumulative_sum());
    let mut want = vec![0];
    for &v in &x {
        want.push(want.last().unwrap() + v);
    }
    ensure!(ctx, cs == want, "max-sum-cumsum", "cumulative_sum = {:?} want {:?}", cs, want);
    // segmented sum: sizes sum to the length of the value array
    ctx.sub("segmented-sum");
    let nseg = t.range(0, 6);
    let mut sizes = vec![0usize; nseg];
    if nseg > 0 {
        for _ in 0..x.len() {
            sizes[t.choice(nseg)] += 1;
        }
        let ss = un(&mk(sizes.clone()).segmented_sum(&ax));
        let mut want = vec![];
        let mut p = 0;
        for &k in &sizes {
            want.push(x[p..p + k].iter().sum::<usize>());
            p += k;
        }
        ctx.set_dump(format!("x = {:?} sizes = {:?}", x, sizes));
        ensure!(ctx, ss == want, "segmented-sum", "segmented_sum = {:?} want {:?}", ss, want);
        ctx.class_if(sizes.iter().any(|&k| k == 0), "empty-segment");
    } else if x.is_empty() {
        let ss = un(&mk(Vec::<usize>::new()).segmented_sum(&ax));
        ensure!(ctx, ss.is_empty(), "segmented-sum", "segmented_sum of nothing = {:?}", ss);
    }
    // zero-finding
    ctx.sub("zero");
    let z = un(&ax.zero());
    let want: Vec<usize> = (0..x.len()).filter(|&i| x[i] == 0).collect();
    ensure!(ctx, z == want, "zero", "zero() = {:?} want {:?}", z, want);
    if x.len() >= 2 {
        ctx.nontrivial(&("sums", &x, &sizes));
        if ctx.want_sample {
            ctx.sample = Some(format!("sums: {}", ctx.dump));
        }
    }
    Ok(())
}

fn repeat_arange(t: &mut Tape, ctx: &mut Ctx, maxlen: usize) -> CheckResult {
    ctx.class("group:repeat-arange");
    let reps = arr_usize(t, maxlen.min(8), 4);
    let vals: Vec<usize> = reps.iter().map(|_| t.choice(9)).collect();
    ctx.set_dump(format!("repeats = {:?} values = {:?}", reps, vals));
    ctx.sub("repeat");
    let r = un(&mk(reps.clone()).repeat(&vals[..]));
    let mut want = vec![];
    for (k, v) in reps.iter().zip(&vals) {
        for _ in 0..*k {
            want.push(*v);
        }
    }
    ensure!(ctx, r == want, "repeat", "repeat = {:?} want {:?}", r, want);
    ctx.sub("segmented-arange");
    let sa = un(&mk(reps.clone()).segmented_arange());
    let mut want = vec![];
    for &k in &reps {
        want.extend(0..k);
    }
    ensure!(ctx, sa == want, "segmented-arange", "segmented_arange({:?}) = {:?} want {:?}", reps, sa, want);
    ctx.sub("arange");
    let a = t.range(0, 10);
    let b = t.range(a, a + 10);
    let ar: A<usize> = NaturalArray::<K>::arange(&a, &b);
    ensure!(ctx, un(&ar) == (a..b).collect::<Vec<_>>(), "arange", "arange({a},{b}) = {:?}", un(&ar));
    ctx.class_if(reps.iter().any(|&k| k == 0), "zero-repeat");
    if reps.len() >= 2 {
        ctx.nontrivial(&("repeat", &reps, &vals, a, b));
        if ctx.want_sample {
            ctx.sample = Some(format!("repeat/arange: {}", ctx.dump));
        }
    }
    Ok(())
}

fn arithmetic(t: &mut Tape, ctx: &mut Ctx, maxlen: usize) -> CheckResult {
    ctx.class("group:arithmetic");
    let x = arr_usize(t, maxlen, ctx.vb(30));
    let y: Vec<usize> = x.iter().map(|_| t.choice(9)).collect();
    let (ax, ay): (A<usize>, A<usize>) = (mk(x.clone()), mk(y.clone()));
    ctx.set_dump(format!("x = {:?} y = {:?}", x, y));
    ctx.sub("quot-rem");
    let d = t.range(1, 7);
    let (q, r) = ax.quot_rem(d);
    ensure!(ctx, un(&q) == x.iter().map(|v| v / d).collect::<Vec<_>>() && un(&r) == x.iter().map(|v| v % d).collect::<Vec<_>>(), "quot-rem", "quot_rem({d}) = {:?} {:?}", un(&q), un(&r));
    let z = lib(|| ax.quot_rem(0));
    ensure!(ctx, z.is_err(), "quot-rem", "quot_rem(0) did not panic");
    ctx.sub("mul-constant-add");
    let c = t.choice(6);
    let m = un(&ax.mul_constant_add(c, &ay));
    ensure!(ctx, m == x.iter().zip(&y).map(|(a, b)| a * c + b).collect::<Vec<_>>(), "mul-constant-add", "mul_constant_add({c}) = {:?}", m);
    if !x.is_empty() {
        let short: A<usize> = mk(y[..y.len() - 1].to_vec());
        let rr = lib(|| ax.mul_constant_add(c, &short));
        ensure!(ctx, rr.is_err(), "mul-constant-add", "mul_constant_add with unequal lengths did not panic");
    }
    ctx.sub("elementwise-add-sub");
    let s = un(&(ax.clone() + ay.clone()));
    ensure!(ctx, s == x.iter().zip(&y).map(|(a, b)| a + b).collect::<Vec<_>>(), "elementwise-add-sub", "x + y = {:?}", s);
    let big: Vec<usize> = x.iter().zip(&y).map(|(a, b)| a + b).collect();
    let df = un(&(mk(big.clone()) - ay.clone()));
    ensure!(ctx, df == x, "elementwise-add-sub", "(x+y) - y = {:?}", df);
    let k = t.choice(7);
    let sh = un(&(k + &ax));
    ensure!(ctx, sh == x.iter().map(|v| v + k).collect::<Vec<_>>(), "elementwise-add-sub", "{k} + &x = {:?}", sh);
    if x.len() >= 2 {
        ctx.nontrivial(&("arithmetic", &x, &y, d, c, k));
        if ctx.want_sample {
            ctx.sample = Some(format!("arithmetic: {} d={d} c={c}", ctx.dump));
        }
    }
    Ok(())
}

fn counting(t: &mut Tape, ctx: &mut Ctx, maxlen: usize) -> CheckResult {
    ctx.class("group:counting");
    let size = t.range(0, ctx.vb(8));
    let x = if size == 0 { vec![] } else { arr_usize(t, maxlen, size) };
    let ax: A<usize> = mk(x.clone());
    ctx.set_dump(format!("x = {:?} size = {size}", x));
    ctx.sub("bincount");
    let b = un(&ax.bincount(size));
    let mut want = vec![0usize; size];
    for &v in &x {
        want[v] += 1;
    }
    ensure!(ctx, b == want, "bincount", "bincount = {:?} want {:?}", b, want);
    ctx.sub("sparse-bincount");
    let (keys, counts) = ax.sparse_bincount();
    let (keys, counts) = (un(&keys), un(&counts));
    ensure!(ctx, keys.len() == counts.len(), "sparse-bincount", "sparse_bincount lengths differ");
    let mut pairs: Vec<(usize, usize)> = keys.iter().copied().zip(counts.iter().copied()).collect();
    pairs.sort_unstable();
    let wantp: Vec<(usize, usize)> = (0..size).filter(|&v| want[v] > 0).map(|v| (v, want[v])).collect();
    ensure!(ctx, pairs == wantp, "sparse-bincount", "sparse_bincount = {:?}/{:?} want pairs {:?}", keys, counts, wantp);
    if x.len() >= 2 {
        ctx.class_if(wantp.len() >= 2, ">=2-keys");
        ctx.nontrivial(&("counting", &x, size));
        if ctx.want_sample {
            ctx.sample = Some(format!("counting: {}", ctx.dump));
        }
    }
    Ok(())
}

fn components(t: &mut Tape, ctx: &mut Ctx, _maxlen: usize) -> CheckResult {
    ctx.class("group:components");
    let tournament = t.weighted(&[5, 1]) == 1;
    let (n, src, tgt): (usize, Vec<usize>, Vec<usize>) = if tournament {
        // balanced merge orders that make a union-by-rank forest deep (8..64 nodes), plus extras
        ctx.class("tournament");
        let k = t.range(3, 6);
        let (n0, pairs) = crate::gen::tournament_pairs(t, k);
        let extra = t.choice(4);
        let n = n0 + extra;
        let drop = t.choice(3); // leave a few classes apart
        let keep = pairs.len().saturating_sub(drop);
        (n, pairs[..keep].iter().map(|p| p.0).collect(), pairs[..keep].iter().map(|p| p.1).collect())
    } else {
        let n = t.range(0, 10);
        let m = if n == 0 { 0 } else { t.range(0, 12) };
        let src: Vec<usize> = (0..m).map(|_| t.choice(n)).collect();
        let tgt: Vec<usize> = src
            .iter()
            .map(|&s| match t.weighted(&[4, 1]) {
                1 => s, // self loop
                _ => t.choice(n),
            })
            .collect();
        (n, src, tgt)
    };
    let m = src.len();
    ctx.set_dump(format!("n = {n} edges = {:?}", src.iter().zip(&tgt).collect::<Vec<_>>()));
    ctx.sub("connected-components");
    let (cc, k) = <A<usize> as NaturalArray<K>>::connected_components(&mk(src.clone()), &mk(tgt.clone()), n);
    let cc = un(&cc);
    ensure!(ctx, cc.len() == n, "connected-components", "labels have length {} want {n}", cc.len());
    let mut hit = vec![false; k];
    for &c in &cc {
        ensure!(ctx, c < k, "connected-components", "label {c} >= {k}");
        hit[c] = true;
    }
    ensure!(ctx, hit.iter().all(|&h| h), "connected-components", "labels {:?} are not a dense numbering of 0..{k}", cc);
    let pairs: Vec<(usize, usize)> = src.iter().copied().zip(tgt.iter().copied()).collect();
    let (want, wk) = partition_of_pairs(n, &pairs);
    ensure!(ctx, canon_partition(&cc) == want && k == wk, "connected-components", "components {:?} ({k}) differ from the reference partition {:?} ({wk})", cc, want);
    // documented panics
    if n > 0 {
        let mut bad = src.clone();
        bad.push(n);
        let mut t2 = tgt.clone();
        t2.push(0);
        let r = lib(|| <A<usize> as NaturalArray<K>>::connected_components(&mk(bad.clone()), &mk(t2.clone()), n));
        ensure!(ctx, r.is_err(), "connected-components", "out-of-range node did not panic");
        let r = lib(|| <A<usize> as NaturalArray<K>>::connected_components(&mk(bad), &mk(tgt.clone()), n + 1));
        ensure!(ctx, r.is_err(), "connected-components", "unequal edge list lengths did not panic");
    }
    if n >= 2 && k >= 2 && m >= 1 {
        ctx.nontrivial(&("components", n, &src, &tgt));
        if ctx.want_sample {
            ctx.sample = Some(format!("components: {} => {:?}", ctx.dump, cc));
        }
    }
    Ok(())
}
