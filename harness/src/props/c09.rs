//! C09 — quotienting a lax diagram merges exactly the unified nodes, atomically
use crate::engine::*;
use crate::ensure;
use crate::gen;
use crate::lax_ops::*;
use crate::model::{canon_partition, partition_of_pairs, Lax};
use crate::tape::Tape;
use super::common::wf;
use open_hypergraphs::lax::NodeId;

pub static PROP: Prop = Prop {
    id: "C09",
    title: "Quotienting a lax diagram merges exactly the unified nodes, atomically",
    check,
    max_tape: (200, 360),
    cases: (200_000, 2_000_000),
    both_profiles: false,
    rule: "generated lax open hypergraphs with a list of unification pairs (self pairs, repeats, chains, pairs across label boundaries; half of the cases label-consistent by construction), followed by 1-3 rounds of [more unifications, optionally a new node/edge, quotient]; every quotient call is compared with a reference union-find and the diagram is inspected before and after; non-trivial = at least one pair joining two distinct nodes (failing quotients counted as a class); distinct = hash of the initial diagram and the history",
    assumptions: &["on Err nothing is demanded of the returned map, only that the diagram is unchanged"],
    fixed: Some(fixed),
    scale: Some(super::scale::c09),
};

/// one quotient call on the open hypergraph, fully checked
fn checked_quotient(ctx: &mut Ctx, f: &mut LOH, round: usize) -> Result<bool, Violation> {
    let before_lib = f.clone();
    let before = from_lax(f).map_err(|e| ctx.fail("lax-wf", format!("before quotient: {e}")))?;
    let n = before.d.nodes.len();
    let (classes, k) = partition_of_pairs(n, &before.q);
    let mut label: Vec<Option<u32>> = vec![None; k];
    let mut conflict = false;
    for i in 0..n {
        match label[classes[i]] {
            None => label[classes[i]] = Some(before.d.nodes[i]),
            Some(l) if l != before.d.nodes[i] => conflict = true,
            _ => {}
        }
    }
    // the non-mutating coequalizer agrees with the reference partition
    ctx.sub("coequalizer-partition");
    let cq = f.hypergraph.coequalizer();
    ensure!(ctx, canon_partition(&cq.table.0) == classes && cq.target == k, "coequalizer-partition", "round {round}: coequalizer {:?} -> {} differs from the components {:?} ({k})", cq.table.0, cq.target, classes);

    // hypergraph-level quotient on a copy
    let mut hcopy = f.hypergraph.clone();
    let hr = hcopy.quotient();
    // the deprecated alias of the open-hypergraph quotient, on another copy
    let mut acopy = f.clone();
    #[allow(deprecated)]
    let ar = acopy.quotient_witness();

    match f.quotient() {
        Ok(q) => {
            ctx.sub("quotient-ok");
            ensure!(ctx, !conflict, "quotient-fails-iff-conflict", "round {round}: quotient succeeded although a class carries two labels; before: {}", before.pretty());
            ensure!(ctx, hr.is_ok(), "quotient-fails-iff-conflict", "round {round}: Hypergraph::quotient failed where OpenHypergraph::quotient succeeded");
            let qt = q.table.0.clone();
            ensure!(ctx, qt.len() == n && q.target == k, "quotient-map", "round {round}: map has type {} -> {} want {} -> {}", qt.len(), q.target, n, k);
            let mut hit = vec![false; k];
            for &c in &qt {
                ensure!(ctx, c < k, "quotient-map", "round {round}: map value {c} >= {k}");
                hit[c] = true;
            }
            ensure!(ctx, hit.iter().all(|&h| h), "quotient-map", "round {round}: map {:?} is not surjective onto {k}", qt);
            ensure!(ctx, canon_partition(&qt) == classes, "quotient-map", "round {round}: fibres of {:?} are not the components {:?} of the pairs {:?}", qt, classes, before.q);
            let after = from_lax(f).map_err(|e| ctx.fail("lax-wf", format!("after quotient: {e}")))?;
            ensure!(ctx, after.d.nodes.len() == k, "quotient-rewrites", "round {round}: {} nodes after the quotient, want {k}", after.d.nodes.len());
            for i in 0..n {
                ensure!(ctx, after.d.nodes[qt[i]] == before.d.nodes[i], "quotient-rewrites", "round {round}: new node {} has label {} but its fibre contains node {i} labelled {}", qt[i], after.d.nodes[qt[i]], before.d.nodes[i]);
            }
            ensure!(ctx, after.d.edges.len() == before.d.edges.len(), "quotient-rewrites", "round {round}: number of hyperedges changed");
            for (i, (ea, eb)) in after.d.edges.iter().zip(before.d.edges.iter()).enumerate() {
                let ms: Vec<usize> = eb.src.iter().map(|&v| qt[v]).collect();
                let mt: Vec<usize> = eb.tgt.iter().map(|&v| qt[v]).collect();
                ensure!(ctx, ea.label == eb.label && ea.src == ms && ea.tgt == mt, "quotient-rewrites", "round {round}: hyperedge {i} is {}:{:?}->{:?} want {}:{:?}->{:?}", ea.label, ea.src, ea.tgt, eb.label, ms, mt);
            }
            let ms: Vec<usize> = before.d.s.iter().map(|&v| qt[v]).collect();
            let mt: Vec<usize> = before.d.t.iter().map(|&v| qt[v]).collect();
            ensure!(ctx, after.d.s == ms && after.d.t == mt, "quotient-rewrites", "round {round}: interfaces {:?} {:?} want {:?} {:?}", after.d.s, after.d.t, ms, mt);
            ensure!(ctx, after.q.is_empty() && f.hypergraph.is_strict(), "quotient-clears-pending", "round {round}: pending pairs after a successful quotient: {:?}", after.q);
            // the hypergraph-level call did the same to the hypergraph
            ensure!(ctx, hcopy == f.hypergraph, "quotient-rewrites", "round {round}: Hypergraph::quotient and OpenHypergraph::quotient disagree on the hypergraph");
            ensure!(ctx, hr.as_ref().ok().map(|x| x.table.0.clone()) == Some(qt.clone()), "quotient-map", "round {round}: the two quotient calls return different maps");
            ensure!(ctx, ar.is_ok() && acopy == *f, "quotient-rewrites", "round {round}: quotient_witness (alias) leaves a different diagram than quotient: sources {:?} targets {:?}", acopy.sources, acopy.targets);
            // idempotence
            ctx.sub("quotient-idempotent");
            let snap = f.clone();
            match f.quotient() {
                Ok(q2) => {
                    ensure!(ctx, *f == snap, "quotient-idempotent", "round {round}: a second quotient changed the diagram");
                    let mut img = q2.table.0.clone();
                    img.sort_unstable();
                    ensure!(ctx, img == (0..k).collect::<Vec<_>>() && q2.target == k, "quotient-idempotent", "round {round}: second quotient returned {:?} -> {}, not a bijection on {k} nodes", q2.table.0, q2.target);
                }
                Err(_) => return Err(ctx.fail("quotient-idempotent", format!("round {round}: a second quotient failed"))),
            }
            Ok(true)
        }
        Err(_) => {
            ctx.sub("quotient-err");
            ctx.class("failed-quotient");
            ensure!(ctx, conflict, "quotient-fails-iff-conflict", "round {round}: quotient failed although every class is single-labelled; before: {}", before.pretty());
            ensure!(ctx, hr.is_err(), "quotient-fails-iff-conflict", "round {round}: Hypergraph::quotient succeeded where OpenHypergraph::quotient failed");
            ensure!(
                ctx,
                *f == before_lib,
                "failed-quotient-is-atomic",
                "round {round}: a failed quotient changed the diagram\n  before: {}\n  after : nodes {:?} pending {:?}",
                before.pretty(),
                f.hypergraph.nodes,
                f.hypergraph.quotient
            );
            ensure!(ctx, hcopy == before_lib.hypergraph, "failed-quotient-is-atomic", "round {round}: a failed Hypergraph::quotient changed the hypergraph: nodes {:?}", hcopy.nodes);
            ensure!(ctx, ar.is_err() && acopy == before_lib, "failed-quotient-is-atomic", "round {round}: quotient_witness (alias) behaves differently on a conflict");
            Ok(false)
        }
    }
}

fn check(t: &mut Tape, ctx: &mut Ctx) -> CheckResult {
    let sz = ctx.sizes;
    let al = gen::alpha(t, &sz);
    let consistent = t.chance(1, 2);
    let mut l = gen::lax(t, &sz, al, consistent, ctx);
    if ctx.medium && t.chance(1, 2) {
        // many more recorded pairs than nodes (repeated and redundant identifications)
        let extra = gen::pending_pairs(t, &l.d, 5 * ctx.medium_t, consistent);
        l.q.extend(extra);
        ctx.class("many-pending-pairs");
    }
    gen::classify(&l.d, ctx);
    // half of the starting diagrams are built through the builder calls (the pairs are recorded by `unify`)
    let via_api = t.chance(1, 2);
    ctx.class_if(via_api, "built-through-unify");
    let mut f = if via_api { to_lax_api(&l) } else { to_lax(&l) };
    if via_api {
        // whatever `unify` stores, it must generate the same identifications as the pairs it was given
        ctx.sub("unify-records");
        let rec = wf(ctx, "lax-wf", from_lax(&f), "diagram built through new_node / new_edge / unify")?;
        let n = l.d.nodes.len();
        ensure!(
            ctx,
            crate::model::partition_of_pairs(n, &rec.q) == crate::model::partition_of_pairs(n, &l.q) && rec.d == l.d,
            "unify-records",
            "after unify{:?} the diagram holds the pending pairs {:?}, which identify different nodes",
            l.q,
            rec.q
        );
    }
    let mut history = String::new();
    ctx.set_dump(format!("start: {}", l.pretty()));
    let rounds = 1 + t.choice(3);
    let mut joins = l.q.iter().any(|(a, b)| a != b);
    for round in 0..rounds {
        if round > 0 {
            // further edits before the next quotient
            let n = f.hypergraph.nodes.len();
            if t.chance(1, 3) {
                let id = f.new_node(crate::labels::Ob(t.choice(al.nl) as u32));
                history.push_str(&format!(" new_node->{}", id.0));
            }
            let n2 = f.hypergraph.nodes.len();
            if n2 > 0 && t.chance(1, 3) {
                let a = t.choice(n2);
                let b = t.choice(n2);
                f.new_edge(crate::labels::Op(0), (vec![NodeId(a)], vec![NodeId(b)]));
                history.push_str(&format!(" new_edge([{a}]->[{b}])"));
            }
            if n2 > 0 {
                for _ in 0..t.range(0, 3) {
                    let a = t.choice(n2);
                    let mut b = t.choice(n2);
                    if consistent {
                        let cands: Vec<usize> = (0..n2).filter(|&v| f.hypergraph.nodes[v] == f.hypergraph.nodes[a]).collect();
                        b = *t.pick(&cands);
                    }
                    f.unify(NodeId(a), NodeId(b));
                    joins |= a != b;
                    history.push_str(&format!(" unify({a},{b})"));
                }
            }
            let _ = n;
        }
        history.push_str(" quotient");
        ctx.set_dump(format!("start: {}\nhistory:{}", l.pretty(), history));
        checked_quotient(ctx, &mut f, round)?;
    }
    if joins {
        ctx.nontrivial(&(&l, &history));
        if ctx.want_sample {
            ctx.sample = Some(ctx.dump.replace('\n', " ; "));
        }
    }
    Ok(())
}

/// hand-written regression cases (D3): a failed quotient must leave the diagram unchanged
fn fixed(ctx: &mut Ctx) -> CheckResult {
    let l = Lax {
        d: crate::model::Diagram {
            nodes: vec![0, 1, 2],
            edges: vec![crate::model::Edge { label: 0, src: vec![0, 2], tgt: vec![1] }],
            s: vec![0],
            t: vec![2, 1],
        },
        q: vec![(0, 1)],
    };
    ctx.set_dump(format!("fixed: {}", l.pretty()));
    let mut f = to_lax(&l);
    let ok = checked_quotient(ctx, &mut f, 0)?;
    ensure!(ctx, !ok, "quotient-fails-iff-conflict", "fixed case: conflicting quotient succeeded");
    // self pairs only: a successful quotient that merges nothing must still clear the pending list
    let l2 = Lax { d: l.d.clone(), q: vec![(1, 1), (1, 1)] };
    ctx.set_dump(format!("fixed: {}", l2.pretty()));
    let mut f = to_lax(&l2);
    let ok = checked_quotient(ctx, &mut f, 0)?;
    ensure!(ctx, ok, "quotient-fails-iff-conflict", "fixed case: self-pair quotient failed");
    Ok(())
}
