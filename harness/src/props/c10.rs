//! C10 — lax and strict representations agree and convert losslessly
use super::common::*;
use crate::engine::*;
use crate::ensure;
use crate::gen;
use crate::kinds::vec_inst as sv;
use crate::labels::{obs, Op};
use crate::lax_ops::*;
use crate::model::{Diagram, Lax};
use crate::tape::Tape;
use open_hypergraphs::category::{Arrow, Spider, SymmetricMonoidal};

pub static PROP: Prop = Prop {
    id: "C10",
    title: "Lax and strict representations agree and convert losslessly",
    check,
    max_tape: (320, 560),
    cases: (60_000, 1_200_000),
    both_profiles: false,
    rule: "pairs (f,g) of generated lax diagrams with label-consistent pending pairs, g's source interface re-attached to f's target type (75%) or left arbitrary (25%: mismatching types / arities); round trips, lax vs strict composition / tensor / identity / symmetry / spider / dagger / singleton, in-place variants; non-trivial = at least one hyperedge and (a non-empty shared boundary or a pending pair); distinct = hash of (f,g)",
    assumptions: &["strictification of a label-inconsistent lax diagram is a caller error (to_strict panics by contract) and is not generated here; C09 covers failing quotients"],
    fixed: None,
    scale: None,
};

fn strictify(ctx: &Ctx, f: &LOH, what: &str) -> Result<Diagram, Violation> {
    wf(ctx, "strictify-wf", sv::from_strict(&f.clone().to_strict()), what)
}

fn check(t: &mut Tape, ctx: &mut Ctx) -> CheckResult {
    let sz = ctx.sizes;
    let al = gen::alpha(t, &sz);
    let fd = gen::diagram(t, &sz, al, ctx);
    let mut gd = gen::diagram(t, &sz, al, ctx);
    let matched = t.chance(3, 4);
    if matched {
        gen::with_source_type(t, &mut gd, &fd.target_type());
    }
    // medium cases: many more recorded identifications than nodes
    let maxq = if ctx.medium { 2 * ctx.medium_t } else { 3 };
    let f = Lax { q: gen::pending_pairs(t, &fd, maxq, true), d: fd };
    let g = Lax { q: gen::pending_pairs(t, &gd, maxq, true), d: gd };
    gen::classify(&f.d, ctx);
    ctx.set_dump(format!("f = {}\ng = {}", f.pretty(), g.pretty()));
    // half of the operands are built through the builder calls (pairs recorded by `unify`)
    let (lf, lg) = if t.chance(1, 2) { (to_lax_api(&f), to_lax_api(&g)) } else { (to_lax(&f), to_lax(&g)) };
    let sfm = f.strictify().expect("consistent pairs");
    let sgm = g.strictify().expect("consistent pairs");

    // ---- strictification agrees with the model's gluing
    let sf_got = strictify(ctx, &lf, "to_strict(f)")?;
    require_iso(ctx, "to-strict-is-quotient", &sf_got, &sfm, "to_strict(f) vs model quotient")?;

    // ---- round trips
    ctx.sub("round-trip-strict");
    let s0 = sv::to_strict(&f.d);
    let back = LOH::from_strict(s0.clone()).to_strict();
    ensure!(
        ctx,
        back.s == s0.s && back.t == s0.t && back.h.s == s0.h.s && back.h.t == s0.h.t && back.h.w == s0.h.w && back.h.x == s0.h.x,
        "round-trip-strict",
        "to_strict(from_strict(f)) differs from f: {:?}",
        sv::from_strict(&back).map(|d| d.pretty())
    );
    ctx.sub("round-trip-lax");
    let plain = to_lax_d(&f.d);
    let back = LOH::from_strict(plain.clone().to_strict());
    ensure!(ctx, back == plain, "round-trip-lax", "from_strict(to_strict(g)) differs from the pending-free g: {:?}", from_lax(&back).map(|l| l.pretty()));
    let lfs = wf(ctx, "lax-wf", from_lax(&LOH::from_strict(s0.clone())), "from_strict")?;
    ensure!(ctx, lfs == Lax { d: f.d.clone(), q: vec![] }, "round-trip-lax", "from_strict(f) is not f: {}", lfs.pretty());

    // the hypergraph-level conversion of a pending-free lax hypergraph is the strict hypergraph with the same lists
    {
        let h = plain.hypergraph.to_hypergraph();
        let want = &s0.h;
        ensure!(ctx, h.s == want.s && h.t == want.t && h.w == want.w && h.x == want.x, "round-trip-lax", "lax::Hypergraph::to_hypergraph differs from the strict hypergraph with the same node, label and incidence lists");
    }

    // ---- composition
    let types_match = f.d.target_type() == g.d.source_type();
    let arity_match = f.d.t.len() == g.d.s.len();
    ctx.sub("lax-compose-definedness");
    let c = Arrow::compose(&lf, &lg);
    let c2 = &lf >> &lg;
    let lc = lf.lax_compose(&lg);
    ensure!(ctx, c.is_some() == types_match && c2.is_some() == types_match, "lax-compose-definedness", "lax compose defined = {} but types match = {}", c.is_some(), types_match);
    ensure!(ctx, lc.is_some() == arity_match, "lax-compose-definedness", "lax_compose defined = {} but arities match = {}", lc.is_some(), arity_match);
    if let Some(lc) = &lc {
        wf(ctx, "lax-wf", from_lax(lc), "lax_compose")?;
    }
    ctx.class_if(!types_match, "type-mismatch");
    ctx.class_if(arity_match && !types_match, "arity-match-label-mismatch");
    if let Some(c) = c {
        let got = strictify(ctx, &c, "strict(f;g)")?;
        let want_lib = (&sv::to_strict(&sfm) >> &sv::to_strict(&sgm)).ok_or_else(|| ctx.fail("compose-commutes", "strict composition undefined although the lax one is defined"))?;
        let want_lib = wf(ctx, "strictify-wf", sv::from_strict(&want_lib), "strict(f);strict(g)")?;
        require_iso(ctx, "compose-commutes", &got, &want_lib, "strict(f;g) vs strict(f);strict(g)")?;
        let want = sfm.compose(&sgm).expect("types match");
        require_iso(ctx, "compose-commutes-model", &got, &want, "strict(f;g) vs the model gluing")?;
        let got2 = strictify(ctx, lc.as_ref().unwrap(), "strict(lax_compose)")?;
        require_iso(ctx, "compose-commutes", &got2, &want, "strict(lax_compose(f,g)) vs the model gluing")?;
        let got3 = strictify(ctx, c2.as_ref().unwrap(), "strict(f >> g)")?;
        require_iso(ctx, "compose-commutes", &got3, &want, "strict(f >> g) vs the model gluing")?;
    }

    // ---- tensor
    let tn = lf.tensor(&lg);
    let got = strictify(ctx, &tn, "strict(f|g)")?;
    let want = wf(ctx, "strictify-wf", sv::op_tensor(&sfm, &sgm), "strict(f)|strict(g)")?;
    require_iso(ctx, "tensor-commutes", &got, &want, "strict(f|g) vs strict(f)|strict(g)")?;

    // ---- in-place variants produce exactly the same data
    ctx.sub("in-place-variants");
    let mut ta = lf.clone();
    ta.tensor_assign(lg.clone());
    ensure!(ctx, ta == tn, "in-place-variants", "tensor_assign differs from tensor\n  got : {:?}\n  want: {:?}", from_lax(&ta).map(|l| l.pretty()), from_lax(&tn).map(|l| l.pretty()));
    let mut ap = lf.clone();
    let (s2, t2) = ap.append(lg.clone());
    let n = f.d.nodes.len();
    ensure!(ctx, ap.hypergraph == tn.hypergraph, "in-place-variants", "append's hypergraph differs from the tensor's");
    ensure!(ctx, ap.sources == lf.sources && ap.targets == lf.targets, "in-place-variants", "append changed the host's interfaces");
    ensure!(ctx, unids(&s2) == g.d.s.iter().map(|v| v + n).collect::<Vec<_>>() && unids(&t2) == g.d.t.iter().map(|v| v + n).collect::<Vec<_>>(), "in-place-variants", "append returned {:?} {:?}", s2, t2);
    let mut ca = lf.hypergraph.clone();
    ca.coproduct_assign(lg.hypergraph.clone());
    ensure!(ctx, ca == tn.hypergraph, "in-place-variants", "coproduct_assign differs from the pure coproduct");

    // ---- constructors
    ctx.sub("constructors-agree");
    let a = f.d.source_type();
    let b = g.d.target_type();
    let li = LOH::identity(obs(&a));
    wf(ctx, "lax-wf", from_lax(&li), "lax identity")?;
    require_iso(ctx, "constructors-agree", &strictify(ctx, &li, "strict(id)")?, &wf(ctx, "strictify-wf", sv::from_strict(&sv::SOH::identity(sv::ty(&a))), "id")?, "strict(lax id) vs strict id")?;
    require_iso(ctx, "constructors-agree", &strictify(ctx, &li, "strict(id)")?, &Diagram::identity(&a), "strict(lax id) vs the model identity")?;
    let ltw = <LOH as SymmetricMonoidal>::twist(obs(&a), obs(&b));
    let stw = wf(ctx, "strictify-wf", sv::from_strict(&sv::SOH::twist(sv::ty(&a), sv::ty(&b))), "twist")?;
    require_iso(ctx, "constructors-agree", &strictify(ctx, &ltw, "strict(lax twist)")?, &stw, "strict(lax twist) vs strict twist")?;
    require_iso(ctx, "constructors-agree", &stw, &Diagram::twist(&a, &b), "twist vs block transposition")?;
    let lsing = LOH::singleton(Op(7), obs(&a), obs(&b));
    let ssing = sv::SOH::singleton(Op(7), sv::ty(&a), sv::ty(&b));
    let want = Diagram::singleton(7, &a, &b);
    require_iso(ctx, "constructors-agree", &strictify(ctx, &lsing, "strict(lax singleton)")?, &want, "lax singleton vs the model singleton")?;
    require_iso(ctx, "constructors-agree", &wf(ctx, "strictify-wf", sv::from_strict(&ssing), "strict singleton")?, &want, "strict singleton vs the model singleton")?;
    // dagger commutes with strictification
    let got = strictify(ctx, &lf.dagger(), "strict(f†)")?;
    require_iso(ctx, "constructors-agree", &got, &sfm.dagger(), "strict(f†) vs strict(f)†")?;
    // spider
    let w = f.d.nodes.clone();
    let nn = w.len();
    let lsp = LOH::spider(sv::ff(f.d.s.clone(), nn), sv::ff(f.d.t.clone(), nn), obs(&w)).ok_or_else(|| ctx.fail("constructors-agree", "lax spider rejected in-range legs"))?;
    let ssp = sv::SOH::spider(sv::ff(f.d.s.clone(), nn), sv::ff(f.d.t.clone(), nn), sv::ty(&w)).ok_or_else(|| ctx.fail("constructors-agree", "strict spider rejected in-range legs"))?;
    require_iso(ctx, "constructors-agree", &strictify(ctx, &lsp, "strict(lax spider)")?, &wf(ctx, "strictify-wf", sv::from_strict(&ssp), "spider")?, "strict(lax spider) vs strict spider")?;
    // spider with the declared codomain of each leg planted independently below / at / above |w|
    // (entries stay in range; derived from the case, no extra choices): lax and strict accept
    // the same legs
    {
        let plant = |leg: &[usize], k: usize| -> usize {
            let need = leg.iter().max().map_or(0, |m| m + 1);
            (nn + k % 3).saturating_sub(1).max(need)
        };
        let (cs, ct) = (plant(&f.d.s, f.d.s.len() + f.d.edges.len()), plant(&f.d.t, f.d.t.len() + nn / 2));
        ctx.class_if(cs != nn || ct != nn, "spider-leg-codomain-off");
        let l = LOH::spider(sv::ff(f.d.s.clone(), cs), sv::ff(f.d.t.clone(), ct), obs(&w));
        let s = sv::SOH::spider(sv::ff(f.d.s.clone(), cs), sv::ff(f.d.t.clone(), ct), sv::ty(&w));
        ensure!(ctx, l.is_some() == s.is_some(), "constructors-agree", "spider with leg codomains {cs}, {ct} over {nn} nodes: lax {} but strict {}", if l.is_some() { "accepts" } else { "refuses" }, if s.is_some() { "accepts" } else { "refuses" });
        ensure!(ctx, s.is_some() == (cs == nn && ct == nn), "constructors-agree", "strict spider with leg codomains {cs}, {ct} over {nn} nodes {}", if s.is_some() { "accepted" } else { "refused" });
    }
    // half-spider (derived constructor: the target leg is the identity on all nodes)
    {
        use open_hypergraphs::category::Spider;
        let lhs = <LOH as Spider<sv::K>>::half_spider(sv::ff(f.d.s.clone(), nn), obs(&w)).ok_or_else(|| ctx.fail("constructors-agree", "lax half_spider rejected an in-range leg"))?;
        let shs = <sv::SOH as Spider<sv::K>>::half_spider(sv::ff(f.d.s.clone(), nn), sv::ty(&w)).ok_or_else(|| ctx.fail("constructors-agree", "strict half_spider rejected an in-range leg"))?;
        wf(ctx, "lax-wf", from_lax(&lhs), "lax half_spider")?;
        require_iso(ctx, "constructors-agree", &strictify(ctx, &lhs, "strict(lax half_spider)")?, &wf(ctx, "strictify-wf", sv::from_strict(&shs), "half_spider")?, "strict(lax half_spider) vs strict half_spider")?;
    }

    // thin public wrappers and deprecated aliases must agree with what they wrap
    ctx.sub("aliases-agree");
    {
        use open_hypergraphs::category::Monoidal;
        let ti = <LOH as Arrow>::identity(obs(&a));
        ensure!(ctx, ti == li, "aliases-agree", "Arrow::identity differs from OpenHypergraph::identity");
        ensure!(ctx, <LOH as Monoidal>::unit().is_empty(), "aliases-agree", "lax Monoidal::unit is not the empty type");
        #[allow(deprecated)]
        {
            let s1 = lf.clone().to_open_hypergraph();
            let s2 = lf.clone().to_strict();
            ensure!(ctx, s1.s == s2.s && s1.t == s2.t && s1.h.s == s2.h.s && s1.h.t == s2.h.t && s1.h.w == s2.h.w && s1.h.x == s2.h.x, "aliases-agree", "to_open_hypergraph differs from to_strict");
            let (mut q1, mut q2) = (lf.clone(), lf.clone());
            let (r1, r2) = (q1.quotient_witness(), q2.quotient());
            ensure!(ctx, r1.is_ok() == r2.is_ok() && q1 == q2, "aliases-agree", "quotient_witness differs from quotient");
            let idf = open_hypergraphs::lax::functor::dyn_functor::Identity;
            let m1 = open_hypergraphs::lax::functor::define_map_arrow(&idf, &plain);
            let m2 = open_hypergraphs::lax::functor::dyn_functor::define_map_arrow(&idf, &plain);
            ensure!(ctx, m1 == m2, "aliases-agree", "lax::functor::define_map_arrow (deprecated shim) differs from dyn_functor::define_map_arrow");
        }
    }
    let has_edge = !f.d.edges.is_empty() || !g.d.edges.is_empty();
    if has_edge && ((types_match && !f.d.t.is_empty()) || !f.q.is_empty() || !g.q.is_empty()) {
        ctx.nontrivial(&(&f, &g));
        ctx.class_if(!f.q.is_empty() || !g.q.is_empty(), "pending-pairs");
        if ctx.want_sample {
            ctx.sample = Some(ctx.dump.replace('\n', " ; "));
        }
    }
    Ok(())
}
