//! C18 — hypergraph morphism validation, monomorphism and convexity tests are exact
use crate::engine::*;
use crate::ensure;
use crate::gen;
use crate::kinds::vec_inst as sv;
use crate::model::{partition_of_pairs, Diagram, Edge};
use crate::tape::Tape;

pub static PROP: Prop = Prop {
    id: "C18",
    title: "Hypergraph morphism validation, monomorphism and convexity tests are exact",
    check,
    max_tape: (180, 320),
    cases: (300_000, 3_000_000),
    both_profiles: true,
    rule: "a generated target hypergraph G with (a) a sub-hypergraph inclusion with shuffled numbering or a fold merging equal-labelled nodes (valid by construction), (b) the same with one planted flaw (one entry of w or x retargeted, codomain size +-1, one label changed, an incidence list edited), or (c) arbitrary maps; validity, the named failing condition, injectivity and convexity compared with brute-force definitions (product-graph BFS for convexity); non-trivial = a planted-flaw case, or a valid inclusion into a graph with >= 1 outside edge and >= 2 image nodes; distinct = hash of (H, G, w, x)",
    assumptions: &["a rejection may name any condition that is false; which one is reported first is not constrained"],
    fixed: Some(fixed),
    scale: Some(super::scale::c18),
};

pub struct Arrow {
    pub h: Diagram, // source
    pub g: Diagram, // target
    pub w: Vec<usize>,
    pub wt: usize,
    pub x: Vec<usize>,
    pub xt: usize,
}

struct Truth {
    type_w: bool,
    nat_w: bool,
    type_x: bool,
    nat_x: bool,
    nat_s: bool,
    nat_t: bool,
}

fn truth(a: &Arrow) -> Truth {
    let (h, g) = (&a.h, &a.g);
    let type_w = a.wt == g.nodes.len();
    let nat_w = type_w && a.w.len() == h.nodes.len() && (0..a.w.len()).all(|i| h.nodes[i] == g.nodes[a.w[i]]);
    let type_x = a.xt == g.edges.len();
    let nat_x = type_x && a.x.len() == h.edges.len() && (0..a.x.len()).all(|i| h.edges[i].label == g.edges[a.x[i]].label);
    let lists = |sel: &dyn Fn(&Edge) -> &Vec<usize>| -> bool {
        if a.w.len() != h.nodes.len() || a.x.len() != h.edges.len() || !type_w || !type_x {
            return false;
        }
        (0..h.edges.len()).all(|e| {
            let mapped: Vec<usize> = sel(&h.edges[e]).iter().map(|&v| a.w[v]).collect();
            &mapped == sel(&g.edges[a.x[e]])
        })
    };
    Truth {
        type_w,
        nat_w,
        type_x,
        nat_x,
        nat_s: lists(&|e| &e.src),
        nat_t: lists(&|e| &e.tgt),
    }
}

fn injective(v: &[usize], n: usize) -> bool {
    let mut seen = vec![false; n];
    for &x in v {
        if seen[x] {
            return false;
        }
        seen[x] = true;
    }
    true
}

/// no directed path from an image node to an image node that uses a hyperedge outside the image
fn convex(a: &Arrow) -> bool {
    let g = &a.g;
    let n = g.nodes.len();
    if !injective(&a.w, n) || !injective(&a.x, g.edges.len()) {
        return false;
    }
    let mut inside = vec![false; g.edges.len()];
    for &e in &a.x {
        inside[e] = true;
    }
    let mut image = vec![false; n];
    for &v in &a.w {
        image[v] = true;
    }
    // BFS over (node, used_outside)
    let mut seen = vec![[false; 2]; n];
    let mut queue: Vec<(usize, usize)> = vec![];
    for v in 0..n {
        if image[v] {
            seen[v][0] = true;
            queue.push((v, 0));
        }
    }
    while let Some((v, f)) = queue.pop() {
        for (ei, e) in g.edges.iter().enumerate() {
            if !e.src.contains(&v) {
                continue;
            }
            let nf = if inside[ei] { f } else { 1 };
            for &u in &e.tgt {
                if nf == 1 && image[u] {
                    return false;
                }
                if !seen[u][nf] {
                    seen[u][nf] = true;
                    queue.push((u, nf));
                }
            }
        }
    }
    true
}

pub fn hyper(t: &mut Tape, ctx: &mut Ctx, al: gen::Alpha) -> Diagram {
    let sz = ctx.sizes;
    let mut d = gen::diagram(t, &sz, al, ctx);
    d.s.clear();
    d.t.clear();
    d
}

/// sub-hypergraph inclusion with shuffled numbering
pub fn inclusion(t: &mut Tape, g: &Diagram) -> Arrow {
    let ne = g.edges.len();
    let n = g.nodes.len();
    let keep_e: Vec<usize> = (0..ne).filter(|_| t.chance(1, 2)).collect();
    let mut keep_n = vec![false; n];
    for &e in &keep_e {
        for &v in g.edges[e].src.iter().chain(&g.edges[e].tgt) {
            keep_n[v] = true;
        }
    }
    for v in 0..n {
        if t.chance(1, 3) {
            keep_n[v] = true;
        }
    }
    let nodes: Vec<usize> = (0..n).filter(|&v| keep_n[v]).collect();
    // shuffle numbering of the sub-hypergraph
    let np = t.permutation(nodes.len());
    let ep = t.permutation(keep_e.len());
    let mut w = vec![0; nodes.len()];
    let mut pos = vec![usize::MAX; n];
    for (i, &v) in nodes.iter().enumerate() {
        w[np[i]] = v;
        pos[v] = np[i];
    }
    let mut x = vec![0; keep_e.len()];
    let mut hedges = vec![Edge::default(); keep_e.len()];
    for (i, &e) in keep_e.iter().enumerate() {
        x[ep[i]] = e;
        hedges[ep[i]] = Edge {
            label: g.edges[e].label,
            src: g.edges[e].src.iter().map(|&v| pos[v]).collect(),
            tgt: g.edges[e].tgt.iter().map(|&v| pos[v]).collect(),
        };
    }
    let h = Diagram {
        nodes: w.iter().map(|&v| g.nodes[v]).collect(),
        edges: hedges,
        s: vec![],
        t: vec![],
    };
    Arrow { h, g: g.clone(), w, wt: n, x, xt: ne }
}

/// fold: quotient of H by pairs of equal-labelled nodes
pub fn fold(t: &mut Tape, h: &Diagram) -> Arrow {
    let n = h.nodes.len();
    let mut pairs = vec![];
    if n > 0 {
        for _ in 0..t.range(0, 3) {
            let a = t.choice(n);
            let cands: Vec<usize> = (0..n).filter(|&v| h.nodes[v] == h.nodes[a]).collect();
            pairs.push((a, *t.pick(&cands)));
        }
    }
    let (g, q) = h.glue(&pairs).expect("equal labels");
    let _ = partition_of_pairs;
    // the source may carry extra copies of some edges, all sent to the original (x not injective)
    let mut hh = h.clone();
    let mut x: Vec<usize> = (0..h.edges.len()).collect();
    if !h.edges.is_empty() {
        for _ in 0..t.choice(3) {
            let e = t.choice(h.edges.len());
            hh.edges.push(h.edges[e].clone());
            x.push(e);
        }
    }
    Arrow { h: hh, g: g.clone(), w: q, wt: g.nodes.len(), x, xt: g.edges.len() }
}

pub fn plant_flaw(t: &mut Tape, a: &mut Arrow, al: gen::Alpha) -> &'static str {
    match t.choice(7) {
        0 if !a.w.is_empty() && a.wt > 1 => {
            let i = t.choice(a.w.len());
            a.w[i] = (a.w[i] + 1 + t.choice(a.wt - 1)) % a.wt;
            "w-entry-retargeted"
        }
        1 if !a.x.is_empty() && a.xt > 1 => {
            let i = t.choice(a.x.len());
            a.x[i] = (a.x[i] + 1 + t.choice(a.xt - 1)) % a.xt;
            "x-entry-retargeted"
        }
        2 => {
            a.wt += 1;
            "w-codomain+1"
        }
        3 => {
            a.xt += 1;
            "x-codomain+1"
        }
        4 if !a.h.nodes.is_empty() && al.nl >= 2 => {
            let i = t.choice(a.h.nodes.len());
            a.h.nodes[i] = (a.h.nodes[i] + 1) % al.nl as u32;
            "node-label-changed"
        }
        5 if !a.h.edges.is_empty() => {
            let i = t.choice(a.h.edges.len());
            a.h.edges[i].label += 1;
            "edge-label-changed"
        }
        _ => {
            // edit one incidence list of the source (drop or append an entry)
            if a.h.edges.is_empty() {
                a.h.nodes.push(0);
                return "source-node-added";
            }
            let i = t.choice(a.h.edges.len());
            let e = &mut a.h.edges[i];
            let list = if t.chance(1, 2) { &mut e.src } else { &mut e.tgt };
            if !list.is_empty() && t.chance(1, 2) {
                list.pop();
            } else if !a.h.nodes.is_empty() {
                list.push(t.choice(a.h.nodes.len()));
            } else {
                a.h.nodes.push(0);
                return "source-node-added";
            }
            "incidence-list-edited"
        }
    }
}

fn decide(ctx: &mut Ctx, a: &Arrow) -> Result<bool, Violation> {
    let tr = truth(a);
    let valid = tr.type_w && tr.nat_w && tr.type_x && tr.nat_x && tr.nat_s && tr.nat_t;
    ctx.sub("arrow-accepted-iff-morphism");
    let (outcome, preds) = sv::op_arrow(&a.h, &a.g, (&a.w, a.wt), (&a.x, a.xt));
    ensure!(ctx, (outcome == "Ok") == valid, "arrow-accepted-iff-morphism", "HypergraphArrow::new returned {outcome} but the pair of maps is a morphism = {valid}");
    if outcome != "Ok" {
        ctx.sub("rejection-names-failing-condition");
        let named_holds = match outcome.as_str() {
            "TypeMismatchW" => tr.type_w,
            "NotNaturalW" => tr.nat_w,
            "TypeMismatchX" => tr.type_x,
            "NotNaturalX" => tr.nat_x,
            "NotNaturalS" => tr.nat_s,
            "NotNaturalT" => tr.nat_t,
            _ => true,
        };
        ensure!(ctx, !named_holds, "rejection-names-failing-condition", "rejected with {outcome}, but that condition holds");
        ctx.class("rejected");
        return Ok(false);
    }
    let (mono, conv) = preds.unwrap();
    ctx.sub("is-monomorphism");
    let want_mono = injective(&a.w, a.g.nodes.len()) && injective(&a.x, a.g.edges.len());
    ensure!(ctx, mono == want_mono, "is-monomorphism", "is_monomorphism = {mono} but both maps injective = {want_mono}");
    ctx.sub("is-convex-subgraph");
    let want_conv = convex(a);
    ensure!(ctx, conv == want_conv, "is-convex-subgraph", "is_convex_subgraph = {conv} but the definition gives {want_conv}");
    ctx.class_if(want_mono, "mono");
    ctx.class_if(want_conv, "convex");
    ctx.class_if(want_mono && !want_conv, "mono-not-convex");
    Ok(true)
}

fn dump(a: &Arrow) -> String {
    format!("H = {}\nG = {}\nw = {:?} -> {} ; x = {:?} -> {}", a.h.pretty(), a.g.pretty(), a.w, a.wt, a.x, a.xt)
}

fn check(t: &mut Tape, ctx: &mut Ctx) -> CheckResult {
    let sz = ctx.sizes;
    let al = gen::alpha(t, &sz);
    let base = hyper(t, ctx, al);
    let kind = t.weighted(&[4, 2, 3, 1]);
    let mut a = match kind {
        0 | 2 => inclusion(t, &base),
        1 => fold(t, &base),
        _ => {
            // arbitrary maps between two independent hypergraphs
            let h = hyper(t, ctx, al);
            let (n, ne) = (base.nodes.len(), base.edges.len());
            let w = if n == 0 { vec![] } else { (0..h.nodes.len()).map(|_| t.choice(n)).collect() };
            let x = if ne == 0 { vec![] } else { (0..h.edges.len()).map(|_| t.choice(ne)).collect() };
            Arrow { h, g: base.clone(), w, wt: n, x, xt: ne }
        }
    };
    let mut flaw = "";
    if kind == 2 {
        flaw = plant_flaw(t, &mut a, al);
        ctx.class("planted-flaw");
    }
    ctx.class(match kind {
        0 => "kind:inclusion",
        1 => "kind:fold",
        2 => "kind:flawed-inclusion",
        _ => "kind:arbitrary",
    });
    ctx.set_dump(format!("{}\nflaw: {flaw}", dump(&a)));
    let accepted = decide(ctx, &a)?;
    let outside = (0..a.g.edges.len()).filter(|e| !a.x.contains(e)).count();
    if kind == 2 || (accepted && kind == 0 && outside >= 1 && a.w.len() >= 2) {
        ctx.nontrivial(&(&a.h, &a.g, &a.w, a.wt, &a.x, a.xt));
        if ctx.want_sample {
            ctx.sample = Some(ctx.dump.replace('\n', " ; "));
        }
    }
    Ok(())
}

/// hand-written regression cases
fn fixed(ctx: &mut Ctx) -> CheckResult {
    let e = |l: u32, s: &[usize], t: &[usize]| Edge { label: l, src: s.to_vec(), tgt: t.to_vec() };
    // D1: the discrete sub-hypergraph {a, b} of one edge [a,a,a] -> [b]
    let g = Diagram { nodes: vec![0, 0], edges: vec![e(0, &[0, 0, 0], &[1])], s: vec![], t: vec![] };
    let h = Diagram { nodes: vec![0, 0], edges: vec![], s: vec![], t: vec![] };
    let a = Arrow { h, g, w: vec![0, 1], wt: 2, x: vec![], xt: 1 };
    ctx.set_dump(dump(&a));
    decide(ctx, &a)?;
    // concatenated incidence preserved but edge boundaries shifted: not a morphism
    let h = Diagram { nodes: vec![0, 0], edges: vec![e(0, &[0, 1], &[]), e(0, &[], &[])], s: vec![], t: vec![] };
    let g = Diagram { nodes: vec![0, 0], edges: vec![e(0, &[0], &[]), e(0, &[1], &[])], s: vec![], t: vec![] };
    let a = Arrow { h, g, w: vec![0, 1], wt: 2, x: vec![0, 1], xt: 2 };
    ctx.set_dump(dump(&a));
    let ok = decide(ctx, &a)?;
    ensure!(ctx, !ok, "arrow-accepted-iff-morphism", "fixed: shifted edge boundaries accepted");
    // a path that leaves the image and re-enters through two outside edges, inside a cycle
    let g = Diagram { nodes: vec![0; 4], edges: vec![e(0, &[0], &[1]), e(1, &[1], &[2]), e(1, &[2], &[3]), e(0, &[3], &[0])], s: vec![], t: vec![] };
    let h = Diagram { nodes: vec![0, 0], edges: vec![e(0, &[0], &[1])], s: vec![], t: vec![] };
    let a = Arrow { h, g, w: vec![0, 1], wt: 4, x: vec![0], xt: 4 };
    ctx.set_dump(dump(&a));
    decide(ctx, &a)?;
    Ok(())
}
