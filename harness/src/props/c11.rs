//! C11 — imperative editing of lax diagrams refines a plain list model (stateful)
use crate::engine::*;
use crate::ensure;
use crate::gen;
use crate::labels::{Ob, Op};
use crate::lax_ops::*;
use crate::model::{Diagram, Edge, Lax};
use crate::tape::Tape;
use open_hypergraphs::lax::{EdgeId, Hyperedge, NodeId};
use serde::{Deserialize, Serialize};

pub static PROP: Prop = Prop {
    id: "C11",
    title: "Imperative editing of lax diagrams refines a plain list model",
    check,
    max_tape: (700, 2400),
    cases: (60_000, 1_000_000),
    both_profiles: false,
    rule: "histories of up to 25 (thorough 80) builder calls (new_node, new_edge, new_operation, add_edge_source/target, unify, delete_nodes, delete_edges, map/with nodes/edges, interface assignment) with valid, duplicated and out-of-range identifiers for the deletions, starting from the empty diagram, a singleton or a generated diagram; the model replays each step with Vec operations and all public fields are compared after every step; serde round trip and JSON shape at the end; non-trivial = the history contains a node deletion after an edit that created references (incidence, interface or pending pair) to a deleted node; distinct = hash of the start diagram and the history",
    assumptions: &["after a rejected (panicking) deletion the history continues from a fresh copy of the last good state; nothing is demanded of the object that panicked"],
    fixed: Some(fixed),
    scale: None,
};

/// model of delete_nodes: returns the renumbering
pub fn model_delete_nodes(l: &mut Lax, ids: &[usize], open: bool) -> Vec<Option<usize>> {
    let n = l.d.nodes.len();
    let mut remove = vec![false; n];
    for &i in ids {
        remove[i] = true;
    }
    let mut map = vec![None; n];
    let mut nodes = vec![];
    for i in 0..n {
        if !remove[i] {
            map[i] = Some(nodes.len());
            nodes.push(l.d.nodes[i]);
        }
    }
    l.d.nodes = nodes;
    let ren = |v: &Vec<usize>| -> Vec<usize> { v.iter().filter_map(|&x| map[x]).collect() };
    for e in l.d.edges.iter_mut() {
        e.src = ren(&e.src);
        e.tgt = ren(&e.tgt);
    }
    l.q = l.q.iter().filter_map(|&(a, b)| Some((map[a]?, map[b]?))).collect();
    if open {
        l.d.s = ren(&l.d.s);
        l.d.t = ren(&l.d.t);
    }
    map
}

fn compare(ctx: &mut Ctx, f: &LOH, m: &Lax, step: usize, what: &str) -> CheckResult {
    ctx.sub("state-equals-model");
    let got = from_lax(f).map_err(|e| ctx.fail("state-equals-model", format!("step {step} ({what}): ill-formed state: {e}")))?;
    ensure!(ctx, &got == m, "state-equals-model", "step {step} ({what}): state differs from the model\n  got : {}\n  want: {}", got.pretty(), m.pretty());
    Ok(())
}

fn ids_arg(t: &mut Tape, n: usize, allow_bad: bool) -> (Vec<usize>, bool) {
    let k = t.range(0, 4);
    let mut out = vec![];
    let mut bad = false;
    for _ in 0..k {
        if allow_bad && t.chance(1, 12) {
            out.push(n + t.choice(3));
            bad = true;
        } else if n > 0 {
            if !out.is_empty() && t.chance(1, 4) {
                let d = *t.pick(&out);
                out.push(d); // duplicate
            } else {
                out.push(t.choice(n));
            }
        }
    }
    bad = out.iter().any(|&i| i >= n) && bad || out.iter().any(|&i| i >= n);
    (out, bad)
}

fn check(t: &mut Tape, ctx: &mut Ctx) -> CheckResult {
    let sz = ctx.sizes;
    let al = gen::alpha(t, &sz);
    // starting point
    let mut m: Lax = match t.weighted(&[2, 1, 2]) {
        0 => {
            // Hypergraph::discrete is the empty hypergraph with the given nodes
            let ns: Vec<u32> = (0..t.choice(3)).map(|_| t.choice(al.nl) as u32).collect();
            let h = open_hypergraphs::lax::Hypergraph::<Ob, Op>::discrete(crate::labels::obs(&ns));
            ensure!(ctx, h.nodes == crate::labels::obs(&ns) && h.edges.is_empty() && h.adjacency.is_empty() && h.quotient.0.is_empty() && h.quotient.1.is_empty(), "state-equals-model", "Hypergraph::discrete is not discrete");
            Lax::default()
        }
        1 => {
            let a: Vec<u32> = (0..t.range(0, 3)).map(|_| t.choice(al.nl) as u32).collect();
            let b: Vec<u32> = (0..t.range(0, 3)).map(|_| t.choice(al.nl) as u32).collect();
            Lax { d: Diagram::singleton(t.choice(al.el) as u32, &a, &b), q: vec![] }
        }
        _ => gen::lax(t, &gen::small_sizes(), al, false, ctx),
    };
    let start = m.clone();
    let mut f: LOH = if start.d.edges.len() == 1 && start.q.is_empty() && t.chance(1, 2) && start.d == Diagram::singleton(start.d.edges[0].label, &start.d.source_type(), &start.d.target_type()) {
        LOH::singleton(Op(start.d.edges[0].label), crate::labels::obs(&start.d.source_type()), crate::labels::obs(&start.d.target_type()))
    } else {
        to_lax(&m)
    };
    let mut hist = String::new();
    let steps = t.range(1, sz.steps);
    let mut referenced_then_deleted = false;
    ctx.set_dump(format!("start: {}", start.pretty()));
    compare(ctx, &f, &m, 0, "start")?;
    for step in 1..=steps {
        let n = m.d.nodes.len();
        let ne = m.d.edges.len();
        let op = t.weighted(&[4, 3, 2, 2, 2, 3, 3, 2, 1, 1, 2, 1]);
        match op {
            0 => {
                let l = t.choice(al.nl) as u32;
                let id = f.new_node(Ob(l));
                hist.push_str(&format!(" new_node({l})"));
                ctx.sub("fresh-ids");
                ensure!(ctx, id.0 == n, "fresh-ids", "step {step}: new_node returned {} but there were {n} nodes", id.0);
                m.d.nodes.push(l);
            }
            1 => {
                let l = t.choice(al.el) as u32;
                let src: Vec<usize> = if n == 0 { vec![] } else { (0..t.range(0, 3)).map(|_| t.choice(n)).collect() };
                let tgt: Vec<usize> = if n == 0 { vec![] } else { (0..t.range(0, 3)).map(|_| t.choice(n)).collect() };
                let id = if t.chance(1, 2) {
                    f.new_edge(Op(l), Hyperedge { sources: ids(&src), targets: ids(&tgt) })
                } else {
                    f.new_edge(Op(l), (ids(&src), ids(&tgt)))
                };
                hist.push_str(&format!(" new_edge({l}:{:?}->{:?})", src, tgt));
                ctx.sub("fresh-ids");
                ensure!(ctx, id.0 == ne, "fresh-ids", "step {step}: new_edge returned {} but there were {ne} edges", id.0);
                m.d.edges.push(Edge { label: l, src, tgt });
            }
            2 => {
                let l = t.choice(al.el) as u32;
                let a: Vec<u32> = (0..t.range(0, 3)).map(|_| t.choice(al.nl) as u32).collect();
                let b: Vec<u32> = (0..t.range(0, 3)).map(|_| t.choice(al.nl) as u32).collect();
                let (eid, (s, tt)) = f.new_operation(Op(l), crate::labels::obs(&a), crate::labels::obs(&b));
                hist.push_str(&format!(" new_operation({l}:{:?}->{:?})", a, b));
                let ws: Vec<usize> = (n..n + a.len()).collect();
                let wt: Vec<usize> = (n + a.len()..n + a.len() + b.len()).collect();
                ctx.sub("fresh-ids");
                ensure!(ctx, eid.0 == ne && unids(&s) == ws && unids(&tt) == wt, "fresh-ids", "step {step}: new_operation returned edge {} sources {:?} targets {:?}", eid.0, s, tt);
                m.d.nodes.extend(a.iter().copied());
                m.d.nodes.extend(b.iter().copied());
                m.d.edges.push(Edge { label: l, src: ws, tgt: wt });
            }
            3 if ne > 0 => {
                let e = t.choice(ne);
                let l = t.choice(al.nl) as u32;
                let src_side = t.chance(1, 2);
                let id = if src_side { f.add_edge_source(EdgeId(e), Ob(l)) } else { f.add_edge_target(EdgeId(e), Ob(l)) };
                hist.push_str(&format!(" add_edge_{}({e},{l})", if src_side { "source" } else { "target" }));
                ctx.sub("fresh-ids");
                ensure!(ctx, id.0 == n, "fresh-ids", "step {step}: add_edge_* returned node {} but there were {n} nodes", id.0);
                m.d.nodes.push(l);
                if src_side {
                    m.d.edges[e].src.push(n)
                } else {
                    m.d.edges[e].tgt.push(n)
                }
            }
            4 if n > 0 => {
                let (a, b) = (t.choice(n), t.choice(n));
                f.unify(NodeId(a), NodeId(b));
                hist.push_str(&format!(" unify({a},{b})"));
                m.q.push((a, b));
            }
            5 => {
                let (del, bad) = ids_arg(t, n, true);
                hist.push_str(&format!(" delete_nodes({:?})", del));
                ctx.set_dump(format!("start: {}\nhistory:{}", start.pretty(), hist));
                // hypergraph-level call with witness, on a copy
                let mut hcopy = f.hypergraph.clone();
                let before = f.clone();
                let r = lib(|| f.delete_nodes(&ids(&del)));
                let rw = lib(|| hcopy.delete_nodes_witness(&ids(&del)));
                // Hypergraph::delete_nodes is the same call without the witness
                let mut hcopy2 = before.hypergraph.clone();
                let r2 = lib(|| hcopy2.delete_nodes(&ids(&del)));
                ensure!(ctx, r2.is_err() == rw.is_err() && (rw.is_err() || hcopy2 == hcopy), "delete-nodes", "step {step}: Hypergraph::delete_nodes differs from delete_nodes_witness");
                ctx.sub("delete-nodes");
                if bad {
                    ctx.class("out-of-range-delete");
                    ensure!(ctx, r.is_err() && rw.is_err(), "delete-rejects-out-of-range", "step {step}: delete_nodes({:?}) with {n} nodes did not panic", del);
                    f = before; // continue from the last good state
                } else {
                    if let Err(p) = &r {
                        return Err(ctx.fail("delete-nodes", format!("step {step}: delete_nodes({:?}) panicked on valid ids: {} at {}", del, p.message, p.location)));
                    }
                    // did the deletion remove a referenced node?
                    let refd = del.iter().any(|&v| {
                        m.d.s.contains(&v) || m.d.t.contains(&v) || m.q.iter().any(|&(a, b)| a == v || b == v) || m.d.edges.iter().any(|e| e.src.contains(&v) || e.tgt.contains(&v))
                    });
                    referenced_then_deleted |= refd;
                    let mut mh = m.clone();
                    let map = model_delete_nodes(&mut m, &del, true);
                    let _ = model_delete_nodes(&mut mh, &del, false);
                    match rw {
                        Ok(w) => {
                            ensure!(ctx, w == map, "delete-witness", "step {step}: delete_nodes_witness({:?}) returned {:?} want {:?}", del, w, map);
                            // monotone renumbering
                            let surv: Vec<usize> = w.iter().flatten().copied().collect();
                            ensure!(ctx, surv == (0..surv.len()).collect::<Vec<_>>(), "delete-witness", "step {step}: renumbering {:?} is not monotone and dense", w);
                            let hm = from_lax(&LOH { sources: vec![], targets: vec![], hypergraph: hcopy }).map_err(|e| ctx.fail("delete-nodes", format!("step {step}: hypergraph ill-formed after delete_nodes_witness: {e}")))?;
                            ensure!(ctx, hm.d.nodes == mh.d.nodes && hm.d.edges == mh.d.edges && hm.q == mh.q, "delete-nodes", "step {step}: Hypergraph::delete_nodes_witness result differs from the model");
                        }
                        Err(p) => return Err(ctx.fail("delete-nodes", format!("step {step}: delete_nodes_witness({:?}) panicked on valid ids: {}", del, p.message))),
                    }
                }
            }
            6 => {
                let (del, bad) = ids_arg(t, ne, true);
                hist.push_str(&format!(" delete_edges({:?})", del));
                ctx.set_dump(format!("start: {}\nhistory:{}", start.pretty(), hist));
                let before = f.clone();
                let eids: Vec<EdgeId> = del.iter().map(|&x| EdgeId(x)).collect();
                #[allow(deprecated)]
                {
                    // the deprecated alias behaves the same
                    let mut h2 = f.hypergraph.clone();
                    let mut h3 = f.hypergraph.clone();
                    let a = lib(|| h2.delete_edge(&eids));
                    let b = lib(|| h3.delete_edges(&eids));
                    ensure!(ctx, a.is_err() == b.is_err() && (a.is_err() || h2 == h3), "delete-edges", "step {step}: delete_edge (deprecated) differs from delete_edges");
                }
                let r = lib(|| f.delete_edges(&eids));
                ctx.sub("delete-edges");
                if bad {
                    ctx.class("out-of-range-delete");
                    ensure!(ctx, r.is_err(), "delete-rejects-out-of-range", "step {step}: delete_edges({:?}) with {ne} edges did not panic", del);
                    f = before;
                } else {
                    if let Err(p) = &r {
                        return Err(ctx.fail("delete-edges", format!("step {step}: delete_edges({:?}) panicked on valid ids: {}", del, p.message)));
                    }
                    let mut keep = vec![true; ne];
                    for &i in &del {
                        keep[i] = false;
                    }
                    let mut i = 0;
                    m.d.edges.retain(|_| {
                        i += 1;
                        keep[i - 1]
                    });
                }
            }
            7 => {
                // relabel nodes / edges
                let k = 1 + t.choice(3) as u32;
                match t.choice(4) {
                    0 => {
                        f = f.map_nodes(|o| Ob((o.0 + k) % 4));
                        for x in m.d.nodes.iter_mut() {
                            *x = (*x + k) % 4;
                        }
                        hist.push_str(&format!(" map_nodes(+{k}%4)"));
                    }
                    1 => {
                        f = f.map_edges(|o| Op((o.0 + k) % 4));
                        for e in m.d.edges.iter_mut() {
                            e.label = (e.label + k) % 4;
                        }
                        hist.push_str(&format!(" map_edges(+{k}%4)"));
                    }
                    2 => {
                        let grow = t.chance(1, 3);
                        let before = f.clone();
                        let r = f.with_nodes(|mut v| {
                            if grow {
                                v.push(Ob(0));
                            }
                            v.reverse();
                            v
                        });
                        hist.push_str(&format!(" with_nodes(reverse{})", if grow { "+push" } else { "" }));
                        ctx.sub("with-nodes-edges");
                        ensure!(ctx, r.is_none() == grow, "with-nodes-edges", "step {step}: with_nodes returned None = {} but the length changed = {}", r.is_none(), grow);
                        match r {
                            Some(g) => {
                                f = g;
                                m.d.nodes.reverse();
                            }
                            None => f = before,
                        }
                    }
                    _ => {
                        let shrink = t.chance(1, 3) && ne > 0;
                        let before = f.clone();
                        let r = f.with_edges(|mut v| {
                            if shrink {
                                v.pop();
                            }
                            v.reverse();
                            v
                        });
                        hist.push_str(&format!(" with_edges(reverse{})", if shrink { "+pop" } else { "" }));
                        ctx.sub("with-nodes-edges");
                        ensure!(ctx, r.is_none() == shrink, "with-nodes-edges", "step {step}: with_edges returned None = {} but the length changed = {}", r.is_none(), shrink);
                        match r {
                            Some(g) => {
                                f = g;
                                let labels: Vec<u32> = m.d.edges.iter().rev().map(|e| e.label).collect();
                                for (e, l) in m.d.edges.iter_mut().zip(labels) {
                                    e.label = l;
                                }
                            }
                            None => f = before,
                        }
                    }
                }
            }
            8 | 9 if n > 0 => {
                let v: Vec<usize> = (0..t.range(0, 4)).map(|_| t.choice(n)).collect();
                if op == 8 {
                    f.sources = ids(&v);
                    m.d.s = v.clone();
                    hist.push_str(&format!(" sources={:?}", v));
                } else {
                    f.targets = ids(&v);
                    m.d.t = v.clone();
                    hist.push_str(&format!(" targets={:?}", v));
                }
            }
            11 => {
                // bulk growth: many nodes and hyperedges at once, so that later deletions and
                // relabellings work on lists of 30-100 items
                let kn = t.range(8, 40);
                let ke = t.range(8, 64);
                for _ in 0..kn {
                    let l = t.choice(al.nl) as u32;
                    f.new_node(Ob(l));
                    m.d.nodes.push(l);
                }
                let n2 = m.d.nodes.len();
                for _ in 0..ke {
                    let l = t.choice(al.el) as u32;
                    let src: Vec<usize> = (0..t.choice(3)).map(|_| t.choice(n2)).collect();
                    let tgt: Vec<usize> = (0..t.choice(3)).map(|_| t.choice(n2)).collect();
                    f.new_edge(Op(l), (ids(&src), ids(&tgt)));
                    m.d.edges.push(Edge { label: l, src, tgt });
                }
                hist.push_str(&format!(" bulk(+{kn} nodes, +{ke} edges)"));
                ctx.class("bulk-growth");
            }
            _ => {
                // hypergraph-level builder calls go through the same code; exercise them directly
                let l = t.choice(al.nl) as u32;
                let id = f.hypergraph.new_node(Ob(l));
                ctx.sub("fresh-ids");
                ensure!(ctx, id.0 == n, "fresh-ids", "step {step}: Hypergraph::new_node returned {}", id.0);
                m.d.nodes.push(l);
                hist.push_str(&format!(" h.new_node({l})"));
            }
        }
        ctx.set_dump(format!("start: {}\nhistory:{}", start.pretty(), hist));
        compare(ctx, &f, &m, step, "after the call")?;
    }
    serde_checks(ctx, &f)?;
    if referenced_then_deleted {
        ctx.nontrivial(&(&start, &hist));
        if ctx.want_sample {
            ctx.sample = Some(ctx.dump.replace('\n', " ; "));
        }
    }
    Ok(())
}

fn serde_checks(ctx: &mut Ctx, f: &LOH) -> CheckResult {
    ctx.sub("serde-round-trip");
    let text = serde_json::to_string(f).map_err(|e| ctx.fail("serde-round-trip", format!("serialisation failed: {e}")))?;
    let back: LOH = serde_json::from_str(&text).map_err(|e| ctx.fail("serde-round-trip", format!("deserialisation of {text} failed: {e}")))?;
    ensure!(ctx, &back == f, "serde-round-trip", "JSON round trip changed the diagram: {text}");
    ctx.sub("serde-shape");
    let v: serde_json::Value = serde_json::from_str(&text).unwrap();
    let want = serde_json::json!({
        "sources": f.sources.iter().map(|x| x.0).collect::<Vec<_>>(),
        "targets": f.targets.iter().map(|x| x.0).collect::<Vec<_>>(),
        "hypergraph": {
            "nodes": f.hypergraph.nodes.iter().map(|x| x.0).collect::<Vec<_>>(),
            "edges": f.hypergraph.edges.iter().map(|x| x.0).collect::<Vec<_>>(),
            "adjacency": f.hypergraph.adjacency.iter().map(|e| serde_json::json!({
                "sources": e.sources.iter().map(|x| x.0).collect::<Vec<_>>(),
                "targets": e.targets.iter().map(|x| x.0).collect::<Vec<_>>(),
            })).collect::<Vec<_>>(),
            "quotient": [
                f.hypergraph.quotient.0.iter().map(|x| x.0).collect::<Vec<_>>(),
                f.hypergraph.quotient.1.iter().map(|x| x.0).collect::<Vec<_>>(),
            ],
        },
    });
    ensure!(ctx, v == want, "serde-shape", "JSON has an undocumented shape:\n  got : {v}\n  want: {want}");
    Ok(())
}

// the README's example signature
#[derive(Debug, Clone, PartialEq, Serialize, Deserialize)]
enum NodeLabel {
    Int,
    Interval { lower: i64, upper: i64 },
}
#[derive(Debug, Clone, PartialEq, Serialize, Deserialize)]
enum EdgeLabel {
    Cast,
    Neg,
    Add,
}

const README_JSON: &str = r#"{
    "sources": [3,0],
    "targets": [4],
    "hypergraph": {
        "nodes":[
            {"Interval":{"lower":0,"upper":1}},
            "Int","Int","Int","Int"
        ],
        "edges": ["Cast","Neg","Add"],
        "adjacency": [
            {"sources":[0],"targets":[1]},
            {"sources":[1],"targets":[2]},
            {"sources":[3,2],"targets":[4]}
        ],
        "quotient":[[],[]]
    }
}"#;

fn fixed(ctx: &mut Ctx) -> CheckResult {
    use open_hypergraphs::lax::OpenHypergraph;
    ctx.set_dump("fixed: README JSON example".into());
    ctx.sub("serde-readme-example");
    let f: OpenHypergraph<NodeLabel, EdgeLabel> = serde_json::from_str(README_JSON).map_err(|e| ctx.fail("serde-readme-example", format!("the README's JSON does not deserialise: {e}")))?;
    ensure!(ctx, f.sources == vec![NodeId(3), NodeId(0)] && f.targets == vec![NodeId(4)], "serde-readme-example", "interfaces {:?} {:?}", f.sources, f.targets);
    ensure!(ctx, f.hypergraph.nodes.len() == 5 && f.hypergraph.nodes[0] == NodeLabel::Interval { lower: 0, upper: 1 } && f.hypergraph.nodes[1] == NodeLabel::Int, "serde-readme-example", "nodes {:?}", f.hypergraph.nodes);
    ensure!(ctx, f.hypergraph.edges == vec![EdgeLabel::Cast, EdgeLabel::Neg, EdgeLabel::Add], "serde-readme-example", "edges {:?}", f.hypergraph.edges);
    ensure!(ctx, f.hypergraph.adjacency[2] == Hyperedge { sources: vec![NodeId(3), NodeId(2)], targets: vec![NodeId(4)] }, "serde-readme-example", "adjacency {:?}", f.hypergraph.adjacency);
    ensure!(ctx, f.hypergraph.quotient.0.is_empty() && f.hypergraph.quotient.1.is_empty(), "serde-readme-example", "quotient not empty");
    let again: serde_json::Value = serde_json::to_value(&f).map_err(|e| ctx.fail("serde-readme-example", format!("{e}")))?;
    let orig: serde_json::Value = serde_json::from_str(README_JSON).unwrap();
    ensure!(ctx, again == orig, "serde-readme-example", "re-serialised README example differs: {again}");
    // the delete-one-endpoint-of-a-pending-pair case
    let mut m = Lax { d: Diagram { nodes: vec![0, 0, 0, 0], edges: vec![], s: vec![0, 1], t: vec![3, 0] }, q: vec![(0, 1), (2, 3)] };
    let mut g = to_lax(&m);
    g.delete_nodes(&[NodeId(0)]);
    model_delete_nodes(&mut m, &[0], true);
    ctx.set_dump("fixed: unify(0,1) unify(2,3) delete_nodes([0])".into());
    compare(ctx, &g, &m, 1, "delete one endpoint of a pending pair")
}
