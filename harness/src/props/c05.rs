//! C05 — every operation returns a well-formed, correctly typed diagram
use crate::engine::*;
use crate::ensure;
use crate::functor_model::optic_type;
use crate::gen;
use crate::kinds::vec_inst as sv;
use crate::labels::{obs, Ob, Op};
use crate::lax_ops::*;
use crate::model::{partition_of_pairs, Diagram};
use crate::tape::Tape;
use open_hypergraphs::category::{Arrow, Spider, SymmetricMonoidal};
use open_hypergraphs::finite_function::FiniteFunction;
use open_hypergraphs::indexed_coproduct::IndexedCoproduct;
use open_hypergraphs::operations::Operations;
use open_hypergraphs::strict::functor::Functor;
use open_hypergraphs::strict::hypergraph::{Hypergraph, InvalidHypergraph};
use open_hypergraphs::strict::open_hypergraph::{InvalidOpenHypergraph, OpenHypergraph};

pub static PROP: Prop = Prop {
    id: "C05",
    title: "Every operation returns a well-formed, correctly typed diagram",
    check,
    max_tape: (700, 1100),
    cases: (120_000, 1_200_000),
    both_profiles: true,
    rule: "(60%) a pipeline of 1..4 (thorough 1..6) public operations applied to the result of the previous one, starting from a constructor (identity, twist, singleton, tensor_operations, spider, half_spider, generated diagram): compose on either side with a generated partner of the matching type, tensor on either side, dagger, strict functor / optic / adapt with generated tables, lax round trip, lax compose / tensor_assign / quotient path, vertex coequalisation; after every step the value is re-checked by the deep well-formedness checker on raw fields and its type is compared with the promised one; (40%) raw nested data for the checked constructors of finite functions, hypergraphs and open hypergraphs, well-formed or with one planted flaw at a boundary value (acceptance iff the documented conditions hold; an Err names a false condition); non-trivial = pipelines of depth >= 2 with >= 1 hyperedge, planted-flaw cases, accepted raw cases with >= 1 edge; distinct = hash of the generated data",
    assumptions: &["components are built through their own checked constructors, never by struct literals that bypass them"],
    fixed: None,
    scale: None,
};

fn check(t: &mut Tape, ctx: &mut Ctx) -> CheckResult {
    if t.weighted(&[3, 2]) == 0 {
        pipeline(t, ctx)
    } else {
        acceptance(t, ctx)
    }
}

fn check_value(ctx: &mut Ctx, f: &sv::SOH, want: (&[u32], &[u32]), what: &str) -> Result<Diagram, Violation> {
    ctx.sub("output-well-formed");
    let d = sv::from_strict(f).map_err(|e| ctx.fail("output-well-formed", format!("{what}: result is not well-formed: {e}")))?;
    // clones are equal data
    let c = f.clone();
    ensure!(ctx, c.s == f.s && c.t == f.t && c.h.s == f.h.s && c.h.t == f.h.t && c.h.w == f.h.w && c.h.x == f.h.x, "output-well-formed", "{what}: clone() differs from the original");
    // the library's own validation must agree
    ensure!(ctx, f.clone().validate().is_ok(), "output-well-formed", "{what}: result fails the library's own validate()");
    ctx.sub("output-type");
    // the trait methods are the inherent ones
    ensure!(ctx, sv::unty(&Arrow::source(f)) == sv::unty(&f.source()) && sv::unty(&Arrow::target(f)) == sv::unty(&f.target()), "output-type", "{what}: Arrow::source/target differ from the inherent methods");
    ensure!(ctx, f.h.is_discrete() == (d.edges.is_empty()), "output-well-formed", "{what}: is_discrete() = {} but the result has {} hyperedges", f.h.is_discrete(), d.edges.len());
    let (s, t) = (sv::unty(&f.source()), sv::unty(&f.target()));
    ensure!(ctx, s == want.0 && t == want.1, "output-type", "{what}: result has type {:?} -> {:?} but the operation promises {:?} -> {:?}", s, t, want.0, want.1);
    ensure!(ctx, d.source_type() == want.0 && d.target_type() == want.1, "output-type", "{what}: decoded type differs");
    Ok(d)
}

fn type_list(t: &mut Tape, al: gen::Alpha, max: usize) -> Vec<u32> {
    (0..t.range(0, max)).map(|_| t.choice(al.nl) as u32).collect()
}

fn pipeline(t: &mut Tape, ctx: &mut Ctx) -> CheckResult {
    ctx.class("group:pipeline");
    // medium cases start from (and combine with) diagrams of the medium sizes
    let sz = if ctx.medium { ctx.sizes } else { gen::small_sizes() };
    let al = gen::alpha(t, &ctx.sizes);
    let mut log = String::new();
    // ---- starting value and its promised type
    let (mut cur, mut a, mut b): (sv::SOH, Vec<u32>, Vec<u32>) = match if ctx.medium && t.chance(2, 3) { 6 } else { t.choice(7) } {
        0 => {
            let a = type_list(t, al, 3);
            log.push_str(&format!("identity({:?})", a));
            // the empty hypergraph is the discrete one on no nodes
            let e = sv::SH::empty();
            let em = sv::from_strict_h(&e).map_err(|er| ctx.fail("output-well-formed", format!("Hypergraph::empty(): {er}")))?;
            ensure!(ctx, em.nodes.is_empty() && em.edges.is_empty() && e.is_discrete(), "output-well-formed", "Hypergraph::empty() is not empty");
            (<sv::SOH as Arrow>::identity(sv::ty(&a)), a.clone(), a)
        }
        1 => {
            let (a, b) = (type_list(t, al, 3), type_list(t, al, 3));
            log.push_str(&format!("twist({:?},{:?})", a, b));
            let ab: Vec<u32> = a.iter().chain(&b).copied().collect();
            let ba: Vec<u32> = b.iter().chain(&a).copied().collect();
            (sv::SOH::twist(sv::ty(&a), sv::ty(&b)), ab, ba)
        }
        2 => {
            let (a, b) = (type_list(t, al, 3), type_list(t, al, 3));
            let l = t.choice(al.el) as u32;
            log.push_str(&format!("singleton({l},{:?},{:?})", a, b));
            (sv::SOH::singleton(Op(l), sv::ty(&a), sv::ty(&b)), a, b)
        }
        3 => {
            // a batch of operations as declared
            let n = t.range(0, 3);
            let labels: Vec<Op> = (0..n).map(|_| Op(t.choice(al.el) as u32)).collect();
            let at: Vec<Vec<u32>> = (0..n).map(|_| type_list(t, al, 2)).collect();
            let bt: Vec<Vec<u32>> = (0..n).map(|_| type_list(t, al, 2)).collect();
            log.push_str(&format!("tensor_operations({:?},{:?},{:?})", labels, at, bt));
            let ops = Operations::new(sv::sf(labels), sv::ics(&at.iter().map(|l| obs(l)).collect::<Vec<_>>()), sv::ics(&bt.iter().map(|l| obs(l)).collect::<Vec<_>>()))
                .ok_or_else(|| ctx.fail("operations-new", "Operations::new rejected a batch with matching counts"))?;
            (sv::SOH::tensor_operations(ops), at.concat(), bt.concat())
        }
        4 => {
            let w = type_list(t, al, 4);
            let n = w.len();
            let leg = |t: &mut Tape| -> Vec<usize> { if n == 0 { vec![] } else { (0..t.range(0, 3)).map(|_| t.choice(n)).collect() } };
            let (s, tt) = (leg(t), leg(t));
            log.push_str(&format!("spider({:?},{:?},{:?})", s, tt, w));
            let f = sv::SOH::spider(sv::ff(s.clone(), n), sv::ff(tt.clone(), n), sv::ty(&w)).ok_or_else(|| ctx.fail("spider-accepts", "spider rejected legs that land in w"))?;
            (f, s.iter().map(|&i| w[i]).collect(), tt.iter().map(|&i| w[i]).collect())
        }
        5 => {
            let w = type_list(t, al, 4);
            let n = w.len();
            let s: Vec<usize> = if n == 0 { vec![] } else { (0..t.range(0, 3)).map(|_| t.choice(n)).collect() };
            log.push_str(&format!("half_spider({:?},{:?})", s, w));
            let f = <sv::SOH as Spider<sv::K>>::half_spider(sv::ff(s.clone(), n), sv::ty(&w)).ok_or_else(|| ctx.fail("spider-accepts", "half_spider rejected a leg that lands in w"))?;
            (f, s.iter().map(|&i| w[i]).collect(), w)
        }
        _ => {
            let d = gen::diagram(t, &sz, al, ctx);
            log.push_str(&format!("diagram[{}]", d.pretty()));
            (sv::to_strict(&d), d.source_type(), d.target_type())
        }
    };
    ctx.set_dump(log.clone());
    let mut cur_d = check_value(ctx, &cur, (&a, &b), "constructor")?;
    let depth = t.range(1, if ctx.tier == Tier::Quick { 4 } else { 6 });
    let mut steps_done = 0;
    for _ in 0..depth {
        if cur_d.nodes.len() > if ctx.medium { 600 } else { 40 } {
            break; // keep sizes bounded
        }
        let mut what: String;
        match if ctx.medium && t.chance(1, 4) { 14 } else { t.choice(18) } {
            0 => {
                let tl = type_list(t, al, 3);
                let g = gen::diagram_with_boundary(t, &sz, al, &b, &tl, ctx);
                what = format!("; [{}]", g.pretty());
                cur = (&cur >> &sv::to_strict(&g)).ok_or_else(|| ctx.fail("compose-defined", "composition undefined although types match"))?;
                b = g.target_type();
            }
            1 => {
                let tl = type_list(t, al, 3);
                let g = gen::diagram_with_boundary(t, &sz, al, &tl, &a, ctx);
                what = format!("[{}] ;", g.pretty());
                cur = (&sv::to_strict(&g) >> &cur).ok_or_else(|| ctx.fail("compose-defined", "composition undefined although types match"))?;
                a = g.source_type();
            }
            2 => {
                let g = gen::diagram(t, &sz, al, ctx);
                what = format!("| [{}]", g.pretty());
                cur = &cur | &sv::to_strict(&g);
                a.extend(g.source_type());
                b.extend(g.target_type());
            }
            3 => {
                let g = gen::diagram(t, &sz, al, ctx);
                what = format!("[{}] |", g.pretty());
                cur = &sv::to_strict(&g) | &cur;
                a = g.source_type().into_iter().chain(a).collect();
                b = g.target_type().into_iter().chain(b).collect();
            }
            4 => {
                what = "dagger".into();
                cur = cur.dagger();
                std::mem::swap(&mut a, &mut b);
            }
            5 => {
                let keys = gen::op_keys(&[&cur_d]);
                let table = gen::functor_table(t, al, al, &keys, ctx);
                what = format!("functor {}", table.pretty());
                cur = sv::SFunctor(table.clone()).map_arrow(&cur);
                a = table.objects(&a);
                b = table.objects(&b);
            }
            6 | 7 => {
                let keys = gen::op_keys(&[&cur_d]);
                let o = gen::optic_table(t, al, al, &keys, ctx);
                let optic = sv::make_optic(&o);
                let img = optic.map_arrow(&cur);
                let adapt = t.chance(1, 2);
                what = format!("optic{} {}", if adapt { "+adapt" } else { "" }, o.pretty());
                if adapt {
                    // the un-adapted image is checked too
                    ctx.set_dump(format!("{log}\n  {what}"));
                    check_value(ctx, &img, (&optic_type(&o, &a), &optic_type(&o, &b)), "optic image")?;
                    cur = optic.adapt(&img, &sv::ty(&a), &sv::ty(&b));
                    let na: Vec<u32> = o.fwd.objects(&a).into_iter().chain(o.rev.objects(&b)).collect();
                    let nb: Vec<u32> = o.fwd.objects(&b).into_iter().chain(o.rev.objects(&a)).collect();
                    a = na;
                    b = nb;
                } else {
                    cur = img;
                    a = optic_type(&o, &a);
                    b = optic_type(&o, &b);
                }
            }
            17 => {
                // forgetting variable hyperedges: some hyperedges are relabelled as variables first
                // (uniform ones are replaced by a merged node, mixed ones must be left alone)
                use open_hypergraphs::lax::var::forget::{forget, forget_monogamous};
                let mut d = cur_d.clone();
                let ne = d.edges.len();
                let picked: Vec<usize> = if ne == 0 { vec![] } else { (0..t.range(0, 2)).map(|_| t.choice(ne)).collect() };
                for &i in &picked {
                    d.edges[i].label = crate::labels::VAR;
                }
                let mono = t.chance(1, 3);
                what = format!("lax: edges {:?} relabelled as variables ; {}", picked, if mono { "forget_monogamous" } else { "forget" });
                ctx.set_dump(format!("{log}\n  {what}"));
                let l = to_lax_d(&d);
                let mut img = if mono { forget_monogamous(&l) } else { forget(&l) };
                from_lax(&img).map_err(|e| ctx.fail("output-well-formed", format!("{what}: {e}")))?;
                img.quotient().map_err(|_| ctx.fail("output-well-formed", "the result of forget cannot be quotiented"))?;
                cur = img.to_strict();
                // the type is preserved: a, b unchanged
            }
            16 => {
                // the lax optic entry points (residuals must be a function of the label there)
                use open_hypergraphs::lax::optic::Optic as LaxOptic;
                let keys = gen::op_keys(&[&cur_d]);
                let o = super::c14::optic_table(t, al, &keys, false, ctx);
                let adapted = t.chance(1, 2);
                what = format!("lax optic{} {}", if adapted { " (map_adapted)" } else { "" }, o.pretty());
                ctx.set_dump(format!("{log}\n  {what}"));
                let lo = LOptic(o.clone());
                let l = LOH::from_strict(cur.clone());
                let mut img = if adapted { lo.map_adapted(l) } else { lo.map_arrow(l) };
                from_lax(&img).map_err(|e| ctx.fail("output-well-formed", format!("{what}: {e}")))?;
                img.quotient().map_err(|_| ctx.fail("output-well-formed", "lax optic image cannot be quotiented"))?;
                cur = img.to_strict();
                if adapted {
                    let na: Vec<u32> = o.fwd.objects(&a).into_iter().chain(o.rev.objects(&b)).collect();
                    let nb: Vec<u32> = o.fwd.objects(&b).into_iter().chain(o.rev.objects(&a)).collect();
                    a = na;
                    b = nb;
                } else {
                    a = optic_type(&o, &a);
                    b = optic_type(&o, &b);
                }
            }
            15 => {
                // the lax constructors: _ ; twist(B1,B2) and id | _ in the lax representation
                let k = t.range(0, b.len());
                let (b1, b2) = (b[..k].to_vec(), b[k..].to_vec());
                let c0 = type_list(t, al, 2);
                what = format!("lax: id({:?}) | (_ ; twist({:?},{:?}))", c0, b1, b2);
                let tw = <LOH as SymmetricMonoidal>::twist(obs(&b1), obs(&b2));
                let swapped: Vec<u32> = b2.iter().chain(b1.iter()).copied().collect();
                from_lax(&tw).map_err(|e| ctx.fail("output-well-formed", format!("lax twist: {e}")))?;
                ensure!(ctx, crate::labels::unobs(&Arrow::source(&tw)) == b && crate::labels::unobs(&Arrow::target(&tw)) == swapped, "output-type", "lax twist({:?},{:?}) has type {:?} -> {:?}", b1, b2, Arrow::source(&tw), Arrow::target(&tw));
                let id = <LOH as Arrow>::identity(obs(&c0));
                from_lax(&id).map_err(|e| ctx.fail("output-well-formed", format!("lax identity: {e}")))?;
                ensure!(ctx, crate::labels::unobs(&Arrow::source(&id)) == c0 && crate::labels::unobs(&Arrow::target(&id)) == c0, "output-type", "lax identity({:?}) has the wrong type", c0);
                let l = LOH::from_strict(cur.clone());
                let c = Arrow::compose(&l, &tw).ok_or_else(|| ctx.fail("compose-defined", "lax _ ; twist undefined although the types match"))?;
                let c = &id | &c;
                from_lax(&c).map_err(|e| ctx.fail("output-well-formed", format!("lax id | (_ ; twist): {e}")))?;
                // lax dagger swaps the type; applied twice it is the identity
                let dg = c.dagger();
                from_lax(&dg).map_err(|e| ctx.fail("output-well-formed", format!("lax dagger: {e}")))?;
                ensure!(ctx, Arrow::source(&dg) == Arrow::target(&c) && Arrow::target(&dg) == Arrow::source(&c), "output-type", "lax dagger has type {:?} -> {:?} for an arrow {:?} -> {:?}", Arrow::source(&dg), Arrow::target(&dg), Arrow::source(&c), Arrow::target(&c));
                ensure!(ctx, dg.dagger() == c, "output-type", "lax dagger applied twice is not the identity");
                cur = c.to_strict();
                a = c0.iter().copied().chain(a).collect();
                b = c0.iter().copied().chain(swapped).collect();
            }
            8 => {
                what = "to_strict(from_strict(_))".into();
                let l = LOH::from_strict(cur.clone());
                from_lax(&l).map_err(|e| ctx.fail("output-well-formed", format!("from_strict: {e}")))?;
                cur = l.to_strict();
            }
            9 => {
                // through the lax operations: lax_compose with a partner + tensor_assign, then strictify
                let tl = type_list(t, al, 2);
                let g = gen::diagram_with_boundary(t, &sz, al, &b, &tl, ctx);
                let h = gen::diagram(t, &sz, al, ctx);
                what = format!("lax: [{}] tensor_assign (_ ; [{}])", h.pretty(), g.pretty());
                let l = LOH::from_strict(cur.clone());
                let c = Arrow::compose(&l, &to_lax_d(&g)).ok_or_else(|| ctx.fail("compose-defined", "lax composition undefined although types match"))?;
                from_lax(&c).map_err(|e| ctx.fail("output-well-formed", format!("lax compose: {e}")))?;
                // a partner of equal arity whose labels differ at one position: every composition entry
                // point must either refuse or return something that can be quotiented
                if !b.is_empty() && al.nl >= 2 {
                    let mut wrong = b.clone();
                    let i = t.choice(wrong.len());
                    wrong[i] = (wrong[i] + 1) % al.nl as u32;
                    let tl2 = type_list(t, al, 2);
                    let bad = gen::diagram_with_boundary(t, &sz, al, &wrong, &tl2, ctx);
                    for (name, r) in [(">>", &l >> &to_lax_d(&bad)), ("compose", Arrow::compose(&l, &to_lax_d(&bad)))] {
                        if let Some(mut r) = r {
                            ensure!(ctx, r.quotient().is_ok(), "output-well-formed", "lax {name} of diagrams with different boundary labels returned a diagram that cannot be quotiented");
                        }
                    }
                }
                // the composite still carries its pending pairs when it is appended in place
                let mut acc = to_lax_d(&h);
                acc.tensor_assign(c);
                let mut c = acc;
                from_lax(&c).map_err(|e| ctx.fail("output-well-formed", format!("tensor_assign: {e}")))?;
                c.quotient().map_err(|_| ctx.fail("output-well-formed", "quotient of [h] tensor_assign (type-matched lax composite) failed"))?;
                from_lax(&c).map_err(|e| ctx.fail("output-well-formed", format!("quotient: {e}")))?;
                cur = c.to_strict();
                b = g.target_type();
                a = h.source_type().into_iter().chain(a).collect();
                b = h.target_type().into_iter().chain(b).collect();
            }
            12 | 13 => {
                // lax functors: through the strict machinery (dyn_functor) or natively (+ quotient)
                use open_hypergraphs::lax::functor::{try_define_map_arrow, Functor as LaxFunctor};
                let keys = gen::op_keys(&[&cur_d]);
                let table = gen::functor_table(t, al, al, &keys, ctx);
                let native = t.chance(1, 2);
                what = format!("lax functor ({}) {}", if native { "native" } else { "dyn" }, table.pretty());
                let l = LOH::from_strict(cur.clone());
                let lf = LFunctor(table.clone());
                let mut img = if native {
                    try_define_map_arrow(&lf, &l).ok_or_else(|| ctx.fail("output-well-formed", "try_define_map_arrow returned None on a quotient-free diagram"))?
                } else {
                    lf.map_arrow(&l)
                };
                from_lax(&img).map_err(|e| ctx.fail("output-well-formed", format!("lax functor image: {e}")))?;
                img.quotient().map_err(|_| ctx.fail("output-well-formed", "lax functor image cannot be quotiented"))?;
                from_lax(&img).map_err(|e| ctx.fail("output-well-formed", format!("quotiented lax functor image: {e}")))?;
                ensure!(ctx, crate::labels::unobs(&Arrow::source(&img)) == table.objects(&a) && crate::labels::unobs(&Arrow::target(&img)) == table.objects(&b), "output-type", "lax functor image has the wrong type");
                cur = img.to_strict();
                a = table.objects(&a);
                b = table.objects(&b);
            }
            14 => {
                // lax editing: record some unifications, delete a few nodes, strictify
                let n = cur_d.nodes.len();
                let mut l = crate::model::Lax { d: cur_d.clone(), q: gen::pending_pairs(t, &cur_d, 3, true) };
                let del: Vec<usize> = if n == 0 { vec![] } else { (0..t.range(0, 2)).map(|_| t.choice(n)).collect() };
                what = format!("lax: unify {:?} ; delete_nodes({:?}) ; to_strict", l.q, del);
                let mut g = to_lax(&l);
                g.delete_nodes(&ids(&del));
                let got = from_lax(&g).map_err(|e| ctx.fail("output-well-formed", format!("{what}: {e}")))?;
                super::c11::model_delete_nodes(&mut l, &del, true);
                ensure!(ctx, got == l, "output-well-formed", "{what}: lax diagram after delete_nodes differs from the list model\n  got : {}\n  want: {}", got.pretty(), l.pretty());
                // ... and a few hyperedges; the id list may repeat ids and be longer than the edge list
                let m = l.d.edges.len();
                if m > 0 && t.chance(1, 2) {
                    let dele: Vec<usize> = (0..t.range(1, 2 * m + 1)).map(|_| t.choice(m)).collect();
                    what = format!("{what} ; delete_edges({:?})", dele);
                    g.delete_edges(&dele.iter().map(|&e| open_hypergraphs::lax::EdgeId(e)).collect::<Vec<_>>());
                    let mut k = 0;
                    l.d.edges.retain(|_| {
                        k += 1;
                        !dele.contains(&(k - 1))
                    });
                    let got = from_lax(&g).map_err(|e| ctx.fail("output-well-formed", format!("{what}: {e}")))?;
                    ensure!(ctx, got == l, "output-well-formed", "{what}: lax diagram after delete_edges differs from the list model\n  got : {}\n  want: {}", got.pretty(), l.pretty());
                }
                g.quotient().map_err(|_| ctx.fail("output-well-formed", format!("{what}: the edited diagram cannot be quotiented")))?;
                cur = g.to_strict();
                let want = l.strictify().expect("consistent pairs survive deletion");
                a = want.source_type();
                b = want.target_type();
            }
            10 => {
                // coequalise vertices along equal-labelled pairs
                let n = cur_d.nodes.len();
                let pairs: Vec<(usize, usize)> = if n == 0 {
                    vec![]
                } else {
                    (0..t.range(0, 3))
                        .map(|_| {
                            let x = t.choice(n);
                            let c: Vec<usize> = (0..n).filter(|&v| cur_d.nodes[v] == cur_d.nodes[x]).collect();
                            (x, *t.pick(&c))
                        })
                        .collect()
                };
                let (q, k) = partition_of_pairs(n, &pairs);
                what = format!("coequalize_vertices({:?})", q);
                let qf = sv::ff(q.clone(), k);
                let h = cur.h.coequalize_vertices(&qf).ok_or_else(|| ctx.fail("coequalize-vertices", "coequalize_vertices returned None for a label-consistent quotient"))?;
                cur = OpenHypergraph::new(cur.s.compose(&qf).unwrap(), cur.t.compose(&qf).unwrap(), h).map_err(|e| ctx.fail("output-well-formed", format!("coequalize_vertices produced an invalid hypergraph: {:?}", e)))?;
            }
            _ => {
                // identity on the current target, composed
                what = "; identity".into();
                cur = (&cur >> &sv::SOH::identity(sv::ty(&b))).ok_or_else(|| ctx.fail("compose-defined", "f ; id undefined"))?;
            }
        }
        log.push_str(&format!("\n  {what}"));
        ctx.set_dump(log.clone());
        cur_d = check_value(ctx, &cur, (&a, &b), &what)?;
        steps_done += 1;
    }
    if steps_done >= 2 && !cur_d.edges.is_empty() {
        ctx.nontrivial(&log);
        if ctx.want_sample {
            ctx.sample = Some(format!("{} => {}", log.replace('\n', " "), cur_d.pretty()));
        }
    }
    Ok(())
}

// ------------------------------------------------------------------------------------------
// acceptance of raw data

fn acceptance(t: &mut Tape, ctx: &mut Ctx) -> CheckResult {
    ctx.class("group:acceptance");
    let sz = ctx.sizes;
    let al = gen::alpha(t, &sz);
    match t.choice(6) {
        5 => {
            // spider(s, t, w): both legs must land in the node list w
            let w: Vec<u32> = (0..t.range(0, 4)).map(|_| t.choice(al.nl) as u32).collect();
            let n = w.len();
            let cod = |t: &mut Tape| match t.weighted(&[3, 1, 1]) {
                1 => n + 1,
                2 if n > 0 => n - 1,
                _ => n,
            };
            let (cs, ct) = (cod(t), cod(t));
            let leg = |t: &mut Tape, c: usize| -> Vec<usize> { if c == 0 { vec![] } else { (0..t.range(0, 3)).map(|_| t.choice(c)).collect() } };
            let (s, tt) = (leg(t, cs), leg(t, ct));
            ctx.set_dump(format!("spider: s = {:?} -> {cs}, t = {:?} -> {ct}, w = {:?}", s, tt, w));
            ctx.sub("spider-new-iff");
            let ok = cs == n && ct == n;
            ctx.class_if(!ok, "planted-flaw");
            let r = sv::SOH::spider(sv::ff(s.clone(), cs), sv::ff(tt.clone(), ct), sv::ty(&w));
            ensure!(ctx, r.is_some() == ok, "spider-new-iff", "spider accepted = {} but the legs have codomains {cs} and {ct} for {n} nodes", r.is_some());
            let r2 = <sv::SOH as Spider<sv::K>>::spider(sv::ff(s.clone(), cs), sv::ff(tt.clone(), ct), sv::ty(&w));
            ensure!(ctx, r2.is_some() == ok, "spider-new-iff", "Spider::spider accepted = {} but the legs have codomains {cs} and {ct} for {n} nodes", r2.is_some());
            if let Some(f) = r {
                let want_s: Vec<u32> = s.iter().map(|&i| w[i]).collect();
                let want_t: Vec<u32> = tt.iter().map(|&i| w[i]).collect();
                check_value(ctx, &f, (&want_s, &want_t), "accepted spider")?;
            }
            if !ok {
                ctx.nontrivial(&("spider", &w, &s, cs, &tt, ct));
            }
            return Ok(());
        }
        4 => {
            // Operations::new on raw (labels, source types, target types): one type of each kind per label
            let n = t.range(0, 4);
            let labels: Vec<Op> = (0..n).map(|_| Op(t.choice(al.el) as u32)).collect();
            let tys = |t: &mut Tape, k: usize| -> Vec<Vec<Ob>> { (0..k).map(|_| (0..t.range(0, 3)).map(|_| Ob(t.choice(al.nl) as u32)).collect()).collect() };
            let (mut na, mut nb) = (n, n);
            match t.weighted(&[3, 1, 1, 1]) {
                1 => na = if t.chance(1, 2) { n + 1 + t.choice(2) } else { n.saturating_sub(1) },
                2 => nb = if t.chance(1, 2) { n + 1 + t.choice(2) } else { n.saturating_sub(1) },
                3 => {
                    na = t.range(0, 5);
                    nb = t.range(0, 5);
                }
                _ => {}
            }
            let (a, b) = (tys(t, na), tys(t, nb));
            ctx.set_dump(format!("Operations::new: labels {:?} source types {:?} target types {:?}", labels, a, b));
            ctx.sub("operations-new-iff");
            let ok = na == n && nb == n;
            ctx.class_if(!ok, "planted-flaw");
            let r = Operations::<sv::K, Ob, Op>::new(sv::sf(labels.clone()), sv::ics(&a), sv::ics(&b));
            ensure!(ctx, r.is_some() == ok, "operations-new-iff", "Operations::new accepted = {} but there are {} labels, {} source types and {} target types", r.is_some(), n, na, nb);
            if let Some(ops) = r {
                // an accepted batch becomes a well-formed diagram of the declared type
                let f = OpenHypergraph::<sv::K, Ob, Op>::tensor_operations(ops);
                let want_s: Vec<u32> = a.iter().flatten().map(|o| o.0).collect();
                let want_t: Vec<u32> = b.iter().flatten().map(|o| o.0).collect();
                check_value(ctx, &f, (&want_s, &want_t), "tensor_operations of an accepted batch")?;
            }
            if !ok || n >= 1 {
                ctx.nontrivial(&("operations", &labels, &a, &b));
            }
            return Ok(());
        }
        3 => {
            // IndexedCoproduct::new / from_semifinite on raw (sizes, codomain, values)
            let target = t.range(0, 4);
            let nseg = t.range(0, 4);
            let mut sizes: Vec<usize> = (0..nseg).map(|_| if target == 0 { 0 } else { t.choice(3) }).collect();
            let sum: usize = sizes.iter().sum();
            let mut nvals = sum;
            let mut cod = sum + 1;
            match t.weighted(&[3, 1, 1, 1, 1]) {
                1 => nvals += 1 + t.choice(2),
                2 if nvals > 0 => nvals -= 1,
                3 => cod += 1,
                4 if !sizes.is_empty() => {
                    let i = t.choice(sizes.len());
                    sizes[i] += 1;
                    cod += 1; // sizes stay self-consistent, only the value length is off
                }
                _ => {}
            }
            let values: Vec<usize> = (0..nvals).map(|_| t.choice(target.max(1))).collect();
            let target = target.max(1);
            let nsum: usize = sizes.iter().sum();
            ctx.set_dump(format!("sizes = {:?} codomain = {cod} values = {:?} -> {target}", sizes, values));
            let ok_new = cod == nsum + 1 && nsum == values.len();
            let ok_sf = nsum == values.len();
            ctx.sub("indexed-coproduct-new-iff");
            if sizes.iter().all(|&k| k < cod) {
                let r = IndexedCoproduct::new(sv::ff(sizes.clone(), cod), sv::ff(values.clone(), target));
                ensure!(ctx, r.is_some() == ok_new, "indexed-coproduct-new-iff", "IndexedCoproduct::new accepted = {} but (codomain = sum+1 and sum = number of values) = {ok_new}", r.is_some());
                let r = IndexedCoproduct::new(sv::ff(sizes.clone(), cod), sv::sf(values.iter().map(|&v| Ob(v as u32)).collect::<Vec<_>>()));
                ensure!(ctx, r.is_some() == ok_new, "indexed-coproduct-new-iff", "IndexedCoproduct::new (label values) accepted = {} want {ok_new}", r.is_some());
            }
            let r = IndexedCoproduct::from_semifinite(sv::sf(sizes.clone()), sv::ff(values.clone(), target));
            ensure!(ctx, r.is_some() == ok_sf, "indexed-coproduct-new-iff", "from_semifinite accepted = {} but sizes sum to {nsum} and there are {} values", r.is_some(), values.len());
            ctx.class_if(!ok_new, "planted-flaw");
            if !ok_new || nseg >= 2 {
                ctx.nontrivial(&("ic", &sizes, cod, &values, target));
            }
            Ok(())
        }
        0 => {
            // FiniteFunction::new
            let target = t.range(0, 5);
            let n = t.range(0, 6);
            let table: Vec<usize> = (0..n).map(|_| match t.weighted(&[4, 1, 1]) { 0 => t.choice(target.max(1)).min(target.saturating_sub(1).max(0)), 1 => target, _ => target + 1 }).collect();
            // with target 0 every entry is out of range
            ctx.set_dump(format!("table = {:?} target = {target}", table));
            let ok = table.iter().all(|&v| v < target);
            ctx.sub("finite-function-new-iff");
            let r = FiniteFunction::<sv::K>::new(sv::mk(table.clone()), target);
            ensure!(ctx, r.is_some() == ok, "finite-function-new-iff", "FiniteFunction::new accepted = {} but all entries < target = {ok}", r.is_some());
            if let Some(f) = r {
                ensure!(ctx, f.table.0 == table && f.target == target, "finite-function-new-iff", "new changed the data");
            }
            ctx.class_if(!ok, "planted-flaw");
            if !ok || n >= 2 {
                ctx.nontrivial(&("ff", &table, target));
                if ctx.want_sample {
                    ctx.sample = Some(format!("FiniteFunction::new: {} accepted = {ok}", ctx.dump));
                }
            }
            Ok(())
        }
        1 => hypergraph_new(t, ctx, al),
        _ => open_hypergraph_new(t, ctx, al),
    }
}

struct Raw {
    d: Diagram,
    /// number of source lists / target lists handed over (may differ from the edge count)
    ns: usize,
    nt: usize,
    /// codomains of the incidence value arrays
    cs: usize,
    ct: usize,
}

fn raw(t: &mut Tape, ctx: &mut Ctx, al: gen::Alpha) -> (Raw, &'static str) {
    let sz = ctx.sizes;
    let d = gen::diagram(t, &sz, al, ctx);
    let (n, m) = (d.nodes.len(), d.edges.len());
    let mut r = Raw { d, ns: m, nt: m, cs: n, ct: n };
    let flaw = match t.weighted(&[5, 1, 1, 1, 1, 1, 1]) {
        1 => {
            r.ns += 1;
            "one source list too many"
        }
        2 if m > 0 => {
            r.nt -= 1;
            "one target list too few"
        }
        3 => {
            r.cs += 1;
            "source incidence codomain = nodes + 1"
        }
        4 => {
            r.ct += 1;
            "target incidence codomain = nodes + 1"
        }
        5 => {
            r.d.nodes.push(0);
            "one more node label than the incidence codomains"
        }
        6 => {
            r.d.edges.push(crate::model::Edge { label: 0, src: vec![], tgt: vec![] });
            r.ns -= 0;
            // one more edge label than lists: ns, nt stay at the old count
            r.ns = m;
            r.nt = m;
            "one more edge label than lists"
        }
        _ => "",
    };
    (r, flaw)
}

fn build_h(r: &Raw) -> Result<sv::SH, InvalidHypergraph<sv::K>> {
    let m = r.d.edges.len();
    let lists = |sel: &dyn Fn(usize) -> Vec<usize>, k: usize| -> Vec<Vec<usize>> { (0..k).map(|i| if i < m { sel(i) } else { vec![] }).collect() };
    let s = sv::icf(&lists(&|i| r.d.edges[i].src.clone(), r.ns), r.cs);
    let t = sv::icf(&lists(&|i| r.d.edges[i].tgt.clone(), r.nt), r.ct);
    Hypergraph::new(s, t, sv::sf(r.d.nodes.iter().map(|&l| Ob(l)).collect()), sv::sf(r.d.edges.iter().map(|e| Op(e.label)).collect()))
}

fn hyper_truth(r: &Raw) -> [bool; 4] {
    let (n, m) = (r.d.nodes.len(), r.d.edges.len());
    [r.ns == m, r.nt == m, r.cs == n, r.ct == n]
}

fn hypergraph_new(t: &mut Tape, ctx: &mut Ctx, al: gen::Alpha) -> CheckResult {
    let (r, flaw) = raw(t, ctx, al);
    ctx.set_dump(format!("{} lists {}/{} codomains {}/{} flaw: {flaw}", r.d.pretty(), r.ns, r.nt, r.cs, r.ct));
    let truth = hyper_truth(&r);
    let ok = truth.iter().all(|&b| b);
    ctx.sub("hypergraph-new-iff");
    match build_h(&r) {
        Ok(h) => {
            ensure!(ctx, ok, "hypergraph-new-iff", "Hypergraph::new accepted data violating a documented equality {:?}", truth);
            let d = sv::from_strict_h(&h).map_err(|e| ctx.fail("hypergraph-new-iff", format!("accepted hypergraph is ill-formed: {e}")))?;
            ensure!(ctx, d.nodes == r.d.nodes && d.edges == r.d.edges, "hypergraph-new-iff", "new changed the data");
        }
        Err(e) => {
            ensure!(ctx, !ok, "hypergraph-new-iff", "Hypergraph::new rejected well-formed data with {:?}", e);
            ctx.sub("error-names-false-equality");
            let named = match e {
                InvalidHypergraph::SourcesCount(..) => truth[0],
                InvalidHypergraph::TargetsCount(..) => truth[1],
                InvalidHypergraph::SourcesSet(..) => truth[2],
                InvalidHypergraph::TargetsSet(..) => truth[3],
            };
            ensure!(ctx, !named, "error-names-false-equality", "rejected with {:?}, an equality that holds", e);
        }
    }
    ctx.class_if(!ok, "planted-flaw");
    if !ok || !r.d.edges.is_empty() {
        ctx.nontrivial(&("h", &r.d, r.ns, r.nt, r.cs, r.ct));
        if ctx.want_sample {
            ctx.sample = Some(format!("Hypergraph::new: {} accepted = {ok}", ctx.dump));
        }
    }
    Ok(())
}

fn open_hypergraph_new(t: &mut Tape, ctx: &mut Ctx, al: gen::Alpha) -> CheckResult {
    let (r, flaw) = raw(t, ctx, al);
    let n = r.d.nodes.len();
    let (mut cs, mut ct) = (n, n);
    let leg_flaw = match t.weighted(&[4, 1, 1, 1]) {
        1 => {
            cs += 1;
            "source leg codomain = nodes + 1"
        }
        2 => {
            ct += 1;
            "target leg codomain = nodes + 1"
        }
        3 if n > 0 && r.d.s.iter().all(|&v| v + 1 < n) => {
            cs -= 1;
            "source leg codomain = nodes - 1"
        }
        _ => "",
    };
    ctx.set_dump(format!("{} lists {}/{} codomains {}/{} legs -> {}/{} flaws: {flaw} {leg_flaw}", r.d.pretty(), r.ns, r.nt, r.cs, r.ct, cs, ct));
    let htruth = hyper_truth(&r);
    let hok = htruth.iter().all(|&b| b);
    let ok = hok && cs == n && ct == n;
    // the hypergraph component is handed over as it is (struct fields are public); build it
    // through the component constructors without the hypergraph-level check
    let m = r.d.edges.len();
    let lists = |sel: &dyn Fn(usize) -> Vec<usize>, k: usize| -> Vec<Vec<usize>> { (0..k).map(|i| if i < m { sel(i) } else { vec![] }).collect() };
    let h = Hypergraph {
        s: sv::icf(&lists(&|i| r.d.edges[i].src.clone(), r.ns), r.cs),
        t: sv::icf(&lists(&|i| r.d.edges[i].tgt.clone(), r.nt), r.ct),
        w: sv::sf(r.d.nodes.iter().map(|&l| Ob(l)).collect()),
        x: sv::sf(r.d.edges.iter().map(|e| Op(e.label)).collect()),
    };
    ctx.sub("open-hypergraph-new-iff");
    match OpenHypergraph::new(sv::ff(r.d.s.clone(), cs), sv::ff(r.d.t.clone(), ct), h) {
        Ok(f) => {
            ensure!(ctx, ok, "open-hypergraph-new-iff", "OpenHypergraph::new accepted data violating a documented equality (hypergraph {:?}, legs {} {} vs {} nodes)", htruth, cs, ct, n);
            let d = sv::from_strict(&f).map_err(|e| ctx.fail("open-hypergraph-new-iff", format!("accepted open hypergraph is ill-formed: {e}")))?;
            ensure!(ctx, d == r.d, "open-hypergraph-new-iff", "new changed the data");
        }
        Err(e) => {
            ensure!(ctx, !ok, "open-hypergraph-new-iff", "OpenHypergraph::new rejected well-formed data with {:?}", e);
            ctx.sub("error-names-false-equality");
            let named = match &e {
                InvalidOpenHypergraph::CospanSourceType(..) => cs == n,
                InvalidOpenHypergraph::CospanTargetType(..) => ct == n,
                InvalidOpenHypergraph::InvalidHypergraph(he) => match he {
                    InvalidHypergraph::SourcesCount(..) => htruth[0],
                    InvalidHypergraph::TargetsCount(..) => htruth[1],
                    InvalidHypergraph::SourcesSet(..) => htruth[2],
                    InvalidHypergraph::TargetsSet(..) => htruth[3],
                },
            };
            ensure!(ctx, !named, "error-names-false-equality", "rejected with {:?}, an equality that holds", e);
        }
    }
    ctx.class_if(!ok, "planted-flaw");
    if !ok || !r.d.edges.is_empty() {
        ctx.nontrivial(&("oh", &r.d, r.ns, r.nt, r.cs, r.ct, cs, ct));
        if ctx.want_sample {
            ctx.sample = Some(format!("OpenHypergraph::new: {} accepted = {ok}", ctx.dump));
        }
    }
    let _ = IndexedCoproduct::<sv::K, sv::FF>::initial(0);
    Ok(())
}
