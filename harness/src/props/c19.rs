//! C19 — Var-built terms mean the expression written; forgetting copies keeps meaning
use super::common::*;
use crate::engine::*;
use crate::ensure;
use crate::gen;
use crate::kinds::vec_inst as sv;
use crate::labels::{Ob, Op, VAR};
use crate::lax_ops::*;
use crate::model::{Diagram, Edge, Lax};
use crate::tape::Tape;
use open_hypergraphs::lax::var::{self, forget::forget, forget::forget_monogamous, Var};
use std::cell::RefCell;

pub static PROP: Prop = Prop {
    id: "C19",
    title: "Var-built terms mean the expression written; forgetting copies keeps meaning",
    check,
    max_tape: (260, 460),
    cases: (60_000, 1_000_000),
    both_profiles: false,
    rule: "(50%) straight-line programs over Var::new, the eleven operator overloads, operation (m -> n) and fn_operation with arbitrary sharing and repeated outputs, optionally with a handle smuggled out of the builder: structure of the built term, evaluation of the term (variable edges read as 1 -> N copies) and of forget(term) against direct evaluation of the program on random u64 inputs; (50%) arbitrary generated lax terms containing variable-labelled edges of any arity and label mix (empty source list with mixed targets, 0 -> 0, pending pairs): forget and forget_monogamous compared up to isomorphism with the definition on the plain model; non-trivial = programs with >= 2 operators sharing a variable, or forget cases with >= 1 uniform and >= 1 non-uniform variable edge; distinct = hash of the program / term",
    assumptions: &["division by zero and shifts are given a total wrapping semantics in both the interpreter and the direct evaluation (x/0 = 0, shift amount mod 64)"],
    fixed: Some(fixed),
    scale: None,
};

#[derive(Clone, Debug, Hash)]
enum Step {
    Bin(u32, usize, usize),
    Un(u32, usize),
    /// generic operation: code k, arguments, number of results
    Operation(u32, Vec<usize>, usize),
    FnOp(u32, Vec<usize>),
}

#[derive(Clone, Debug, Hash)]
struct Prog {
    input_labels: Vec<u32>,
    steps: Vec<Step>,
    outputs: Vec<usize>,
    smuggle: bool,
    /// variables declared as inputs *in addition* to the fresh input variables: any variable, so
    /// the same one can be declared twice and an operator result can be declared an input
    extra_inputs: Vec<usize>,
}

const BIN: &[u32] = &[0, 1, 2, 4, 5, 12, 13, 14, 15];
const UN: &[u32] = &[3, 6];

fn gen_prog(t: &mut Tape, ctx: &Ctx) -> Prog {
    let nin = t.range(0, 3);
    let input_labels: Vec<u32> = (0..nin).map(|_| t.choice(2) as u32).collect();
    let nsteps = t.range(0, ctx.mlen(if ctx.tier == Tier::Quick { 6 } else { 10 }));
    let mut nvars = nin;
    let mut steps = vec![];
    for _ in 0..nsteps {
        let kind = t.weighted(&[5, 2, 2, 1]);
        if nvars == 0 && kind != 2 {
            // only a 0-ary generic operation can start from nothing
            steps.push(Step::Operation(t.choice(3) as u32, vec![], 1));
            nvars += 1;
            continue;
        }
        match kind {
            0 => {
                steps.push(Step::Bin(*t.pick(BIN), t.choice(nvars), t.choice(nvars)));
                nvars += 1;
            }
            1 => {
                steps.push(Step::Un(*t.pick(UN), t.choice(nvars)));
                nvars += 1;
            }
            2 => {
                let m = if nvars == 0 { 0 } else { t.range(0, 3) };
                let args: Vec<usize> = (0..m).map(|_| t.choice(nvars)).collect();
                let n = t.range(0, 3);
                steps.push(Step::Operation(t.choice(3) as u32, args, n));
                nvars += n;
            }
            _ => {
                let m = t.range(0, 3);
                let args: Vec<usize> = (0..m).map(|_| t.choice(nvars)).collect();
                steps.push(Step::FnOp(t.choice(3) as u32, args));
                nvars += 1;
            }
        }
    }
    let nout = if nvars == 0 { 0 } else { t.range(0, 3) };
    let outputs = (0..nout).map(|_| t.choice(nvars)).collect();
    let extra_inputs: Vec<usize> = if nvars > 0 && t.chance(1, 8) { (0..t.range(1, 2)).map(|_| t.choice(nvars)).collect() } else { vec![] };
    Prog { input_labels, steps, outputs, smuggle: t.chance(1, 10), extra_inputs }
}

/// C19's reading of the operator labels: every binary operator is made non-commutative (the second
/// operand is rotated first), so that a swapped operand order changes the value
fn interp19(label: u32, a: &[u64]) -> Vec<u64> {
    if a.len() == 2 && label < 100 {
        super::c16::interp(label, &[a[0], a[1].rotate_left(1) ^ 0x5555])
    } else {
        super::c16::interp(label, a)
    }
}

fn generic_label(k: u32, n: usize) -> u32 {
    400 + 10 * k + n as u32
}

/// direct evaluation of the program
fn run_direct(p: &Prog, x: &[u64]) -> Vec<u64> {
    let mut env: Vec<u64> = x.to_vec();
    for s in &p.steps {
        match s {
            Step::Bin(op, a, b) => env.push(interp19(*op, &[env[*a], env[*b]])[0]),
            Step::Un(op, a) => env.push(super::c16::interp(*op, &[env[*a]])[0]),
            Step::Operation(k, args, n) => {
                let a: Vec<u64> = args.iter().map(|&i| env[i]).collect();
                env.extend(super::c16::interp(generic_label(*k, *n), &a));
            }
            Step::FnOp(k, args) => {
                let a: Vec<u64> = args.iter().map(|&i| env[i]).collect();
                env.extend(super::c16::interp(generic_label(*k, 1), &a));
            }
        }
    }
    p.outputs.iter().map(|&i| env[i]).collect()
}

type State = std::rc::Rc<RefCell<LOH>>;

/// build the term through the Var interface; returns the labels of all variables in order
fn run_builder(p: &Prog, leak: &RefCell<Option<Var<Ob, Op>>>) -> var::BuildResult<Ob, Op> {
    var::build(|state: &State| {
        let mut vars: Vec<Var<Ob, Op>> = p.input_labels.iter().map(|&l| Var::new(state.clone(), Ob(l))).collect();
        let mut inputs = vars.clone();
        for s in &p.steps {
            match s {
                Step::Bin(op, a, b) => {
                    let (x, y) = (vars[*a].clone(), vars[*b].clone());
                    let r = match op {
                        0 => x + y,
                        1 => x - y,
                        2 => x * y,
                        4 => x ^ y,
                        5 => x & y,
                        12 => x | y,
                        13 => x << y,
                        14 => x >> y,
                        _ => x / y,
                    };
                    vars.push(r);
                }
                Step::Un(op, a) => {
                    let x = vars[*a].clone();
                    vars.push(if *op == 3 { -x } else { !x });
                }
                Step::Operation(k, args, n) => {
                    let a: Vec<Var<Ob, Op>> = args.iter().map(|&i| vars[i].clone()).collect();
                    let rs = var::operation(state, &a, vec![Ob(1); *n], Op(generic_label(*k, *n)));
                    vars.extend(rs);
                }
                Step::FnOp(k, args) => {
                    let a: Vec<Var<Ob, Op>> = args.iter().map(|&i| vars[i].clone()).collect();
                    vars.push(var::fn_operation(state, &a, Ob(0), Op(generic_label(*k, 1))));
                }
            }
        }
        if p.smuggle {
            // (with no variable at all there is nothing to smuggle out)
            if let Some(v) = vars.first() {
                *leak.borrow_mut() = Some(v.clone());
            }
        }
        inputs.extend(p.extra_inputs.iter().map(|&i| vars[i].clone()));
        (inputs, p.outputs.iter().map(|&i| vars[i].clone()).collect())
    })
}

/// relabel variable edges 1 -> N as copy operations 300+N so that an interpreter can run them
fn vars_as_copies(d: &Diagram) -> Diagram {
    let mut m = d.clone();
    for e in m.edges.iter_mut() {
        if e.label == VAR {
            e.label = 300 + e.tgt.len() as u32;
        }
    }
    m
}

fn check(t: &mut Tape, ctx: &mut Ctx) -> CheckResult {
    if t.chance(1, 2) {
        forget_terms(t, ctx)
    } else {
        programs(t, ctx)
    }
}

fn programs(t: &mut Tape, ctx: &mut Ctx) -> CheckResult {
    ctx.class("group:var-programs");
    let p = gen_prog(t, ctx);
    let xs: Vec<Vec<u64>> = (0..2).map(|_| (0..p.input_labels.len()).map(|_| t.small_u64()).collect()).collect();
    ctx.set_dump(format!("{:?}", p));
    program_case(ctx, &p, &xs)
}

fn program_case(ctx: &mut Ctx, p: &Prog, xs: &[Vec<u64>]) -> CheckResult {
    let leak = RefCell::new(None);
    let r = run_builder(p, &leak);
    ctx.sub("build-fails-iff-handle-outlives");
    let leaked = leak.borrow().is_some();
    ensure!(ctx, r.is_err() == leaked, "build-fails-iff-handle-outlives", "build returned {} but a handle outlived the builder = {leaked}", if r.is_err() { "Err" } else { "Ok" });
    // number of variables and operators
    let nops = p.steps.len();
    let nvars = p.input_labels.len()
        + p.steps.iter().map(|s| match s { Step::Operation(_, _, n) => *n, _ => 1 }).sum::<usize>();
    let term: LOH = match r {
        Ok(tm) => tm,
        Err(rc) => {
            ctx.class("handle-outlives-builder");
            // the shared state is handed back and holds the term built so far
            let st = rc.borrow().clone();
            let non_var = st.hypergraph.edges.iter().filter(|e| e.0 != VAR).count();
            ensure!(ctx, non_var == nops, "build-fails-iff-handle-outlives", "the state handed back has {} operator hyperedges, want {}", non_var, nops);
            // once the stray handle is gone the state can be unwrapped; it is the term that was
            // written: same checks as for a successful build
            *leak.borrow_mut() = None;
            match std::rc::Rc::try_unwrap(rc) {
                Ok(cell) => cell.into_inner(),
                Err(_) => return Err(ctx.fail("build-fails-iff-handle-outlives", "the state handed back is still shared after the stray handle was dropped")),
            }
        }
    };
    let l = wf(ctx, "term-wf", from_lax(&term), "built term")?;
    ctx.sub("term-structure");
    let var_edges = l.d.edges.iter().filter(|e| e.label == VAR).count();
    ensure!(ctx, l.d.edges.len() - var_edges == nops, "term-structure", "{} operator hyperedges for {} applied operators", l.d.edges.len() - var_edges, nops);
    let _ = nvars;
    ensure!(ctx, l.q.is_empty(), "term-structure", "the built term has pending unifications {:?}", l.q);
    let declared_inputs = p.input_labels.len() + p.extra_inputs.len();
    ensure!(ctx, l.d.s.len() == declared_inputs && l.d.t.len() == p.outputs.len(), "term-structure", "interfaces have lengths {} and {}, declared {} and {}", l.d.s.len(), l.d.t.len(), declared_inputs, p.outputs.len());
    // type of every variable as the signature declares it (binary / unary operators: type of the
    // (left) operand; generic operations: the declared result types)
    let mut var_labels: Vec<u32> = p.input_labels.clone();
    for s in &p.steps {
        match s {
            Step::Bin(op, a, b) => var_labels.push(crate::labels::binop_type(*op, var_labels[*a], var_labels[*b]).0),
            Step::Un(op, a) => var_labels.push(if *op == 3 { crate::labels::neg_type(var_labels[*a]).0 } else { var_labels[*a] }),
            Step::Operation(_, _, n) => var_labels.extend(std::iter::repeat(1).take(*n)),
            Step::FnOp(_, _) => var_labels.push(0),
        }
    }
    let want_s: Vec<u32> = p.input_labels.iter().copied().chain(p.extra_inputs.iter().map(|&i| var_labels[i])).collect();
    ensure!(ctx, l.d.source_type() == want_s, "term-structure", "source type {:?} but the inputs were declared {:?}", l.d.source_type(), want_s);
    let want_t: Vec<u32> = p.outputs.iter().map(|&i| var_labels[i]).collect();
    ensure!(ctx, l.d.target_type() == want_t, "term-structure", "target type {:?} but the outputs were declared with types {:?}", l.d.target_type(), want_t);
    // every variable edge has exactly one source (its definition) - unless a variable was declared
    // an input more than once, or an operator result was declared an input as well
    let plain_inputs = p.extra_inputs.is_empty();
    ctx.class_if(!plain_inputs, "variable-declared-input-twice");
    for e in l.d.edges.iter().filter(|e| e.label == VAR) {
        ensure!(ctx, !plain_inputs || e.src.len() == 1, "term-structure", "a variable hyperedge has {} definitions: {:?}", e.src.len(), e);
    }
    let definitions: usize = l.d.edges.iter().filter(|e| e.label == VAR).map(|e| e.src.len()).sum();
    ensure!(ctx, definitions == nvars + p.extra_inputs.len(), "term-structure", "the variable hyperedges have {} sources in all, want one per variable plus one per additional declaration = {}", definitions, nvars + p.extra_inputs.len());
    // meaning
    let m = vars_as_copies(&l.d);
    let forgotten = forget(&term);
    let fm = wf(ctx, "term-wf", from_lax(&forgotten), "forget(term)")?.strictify().map_err(|e| ctx.fail("term-wf", e))?;
    ensure!(ctx, fm.edges.iter().all(|e| e.label != VAR), "forget-removes-uniform-vars", "forget left a uniform variable hyperedge in place: {}", fm.pretty());
    ensure!(ctx, fm.source_type() == l.d.source_type() && fm.target_type() == l.d.target_type(), "forget-preserves-type", "forget changed the type");
    let fmono = forget_monogamous(&term);
    let fmono = wf(ctx, "term-wf", from_lax(&fmono), "forget_monogamous(term)")?.strictify().map_err(|e| ctx.fail("term-wf", e))?;
    if !plain_inputs {
        // a variable with two definitions has no reading as a function of the declared inputs
        return Ok(());
    }
    for x in xs {
        let want = run_direct(p, x);
        ctx.sub("term-means-program");
        let (got_ref, _) = super::c16::reference_with(&m, x, &|e: &Edge, a: &[u64]| interp19(e.label, a));
        ensure!(ctx, got_ref == want, "term-means-program", "the term evaluates to {:?} (reference interpreter) but the program gives {:?} on {:?}; term = {}", got_ref, want, x, l.d.pretty());
        let (got, _) = sv::op_eval(&m, x, &interp19);
        ensure!(ctx, got.as_ref() == Some(&want), "term-means-program", "eval(term) = {:?} but the program gives {:?} on {:?}", got, want, x);
        ctx.sub("forget-keeps-meaning");
        let (got, _) = sv::op_eval(&fm, x, &interp19);
        ensure!(ctx, got.as_ref() == Some(&want), "forget-keeps-meaning", "eval(forget(term)) = {:?} but the program gives {:?} on {:?}; forget = {}", got, want, x, fm.pretty());
        let (got, _) = sv::op_eval(&vars_as_copies(&fmono), x, &interp19);
        ensure!(ctx, got.as_ref() == Some(&want), "forget-keeps-meaning", "eval(forget_monogamous(term)) = {:?} but the program gives {:?} on {:?}", got, want, x);
    }
    // shared variable between >= 2 operators
    let mut uses = vec![0usize; nvars];
    for s in &p.steps {
        let args: Vec<usize> = match s {
            Step::Bin(_, a, b) => vec![*a, *b],
            Step::Un(_, a) => vec![*a],
            Step::Operation(_, a, _) | Step::FnOp(_, a) => a.clone(),
        };
        for a in args {
            uses[a] += 1;
        }
    }
    if nops >= 2 && uses.iter().any(|&u| u >= 2) {
        ctx.nontrivial(&p);
        if ctx.want_sample {
            ctx.sample = Some(format!("{:?} => term {}", p, l.d.pretty()));
        }
    }
    Ok(())
}

/// forgetting on the plain model: strictify, then merge the incident nodes of every uniform
/// variable hyperedge (only 1 -> 1 ones if `mono`) and remove it
pub fn model_forget(l: &Lax, mono: bool) -> Diagram {
    let d = l.strictify().expect("consistent pending pairs");
    let mut keep = vec![];
    let mut pairs = vec![];
    for e in &d.edges {
        let inc: Vec<usize> = e.src.iter().chain(e.tgt.iter()).copied().collect();
        let uniform = inc.iter().all(|&v| d.nodes[v] == d.nodes[inc[0]]);
        let eligible = e.label == VAR && uniform && (!mono || (e.src.len() == 1 && e.tgt.len() == 1));
        if eligible {
            for w in inc.windows(2) {
                pairs.push((w[0], w[1]));
            }
        } else {
            keep.push(e.clone());
        }
    }
    let stripped = Diagram { nodes: d.nodes.clone(), edges: keep, s: d.s.clone(), t: d.t.clone() };
    stripped.glue(&pairs).expect("uniform edges merge equal labels").0
}

fn forget_case(ctx: &mut Ctx, l: &Lax) -> CheckResult {
    let term = to_lax(l);
    let strict = l.strictify().expect("consistent");
    for mono in [false, true] {
        let sub = if mono { "forget-monogamous-is-definition" } else { "forget-is-definition" };
        let got = if mono { forget_monogamous(&term) } else { forget(&term) };
        let got = wf(ctx, "term-wf", from_lax(&got), "forget result")?.strictify().map_err(|e| ctx.fail("term-wf", e))?;
        let want = model_forget(l, mono);
        require_iso(ctx, sub, &got, &want, if mono { "forget_monogamous(term) vs the definition" } else { "forget(term) vs the definition" })?;
        ctx.sub("forget-preserves-type");
        ensure!(ctx, got.source_type() == strict.source_type() && got.target_type() == strict.target_type(), "forget-preserves-type", "forget changed the type of the term: {:?} -> {:?}", got.source_type(), got.target_type());
    }
    Ok(())
}

fn forget_terms(t: &mut Tape, ctx: &mut Ctx) -> CheckResult {
    ctx.class("group:forget");
    let sz = ctx.sizes;
    let al = gen::alpha(t, &sz);
    let mut d = gen::diagram(t, &sz, al, ctx);
    // turn some edges into variable edges; make some of them uniform on purpose
    for e in d.edges.iter_mut() {
        if t.chance(3, 5) {
            e.label = VAR;
            match t.weighted(&[3, 2, 1, 1]) {
                1 if !d.nodes.is_empty() => {
                    // uniform: re-pick every incident node among the nodes of one label
                    let l = d.nodes[t.choice(d.nodes.len())];
                    let cands: Vec<usize> = (0..d.nodes.len()).filter(|&v| d.nodes[v] == l).collect();
                    for v in e.src.iter_mut().chain(e.tgt.iter_mut()) {
                        *v = *t.pick(&cands);
                    }
                }
                2 => e.src.clear(), // no sources (possibly mixed targets)
                3 if !d.nodes.is_empty() => {
                    // 1 -> 1
                    e.src = vec![t.choice(d.nodes.len())];
                    e.tgt = vec![t.choice(d.nodes.len())];
                }
                _ => {}
            }
        }
    }
    let q = gen::pending_pairs(t, &d, 2, true);
    let l = Lax { d, q };
    ctx.set_dump(l.pretty());
    forget_case(ctx, &l)?;
    let s = l.strictify().unwrap();
    let uni = |e: &Edge| {
        let inc: Vec<usize> = e.src.iter().chain(e.tgt.iter()).copied().collect();
        inc.iter().all(|&v| s.nodes[v] == s.nodes[inc[0]])
    };
    let nu = s.edges.iter().filter(|e| e.label == VAR && uni(e)).count();
    let nn = s.edges.iter().filter(|e| e.label == VAR && !uni(e)).count();
    ctx.class_if(s.edges.iter().any(|e| e.label == VAR && e.src.is_empty() && !uni(e)), "var-no-sources-mixed-targets");
    ctx.class_if(s.edges.iter().any(|e| e.label == VAR && e.src.is_empty() && e.tgt.is_empty()), "var-0-to-0");
    ctx.class_if(s.edges.iter().any(|e| e.label == VAR && uni(e) && e.src.len() + e.tgt.len() == 2 && e.src.len() != 1), "var-uniform-0-2-or-2-0");
    if nu >= 1 && nn >= 1 {
        ctx.nontrivial(&l);
        if ctx.want_sample {
            ctx.sample = Some(format!("forget: {}", l.pretty()));
        }
    }
    Ok(())
}

fn fixed(ctx: &mut Ctx) -> CheckResult {
    let e = |l: u32, s: &[usize], t: &[usize]| Edge { label: l, src: s.to_vec(), tgt: t.to_vec() };
    let cases = vec![
        // D5: variable edge with no sources and mixed target labels
        Lax { d: Diagram { nodes: vec![1, 2], edges: vec![e(VAR, &[], &[0, 1])], s: vec![], t: vec![0, 1] }, q: vec![] },
        // uniform 0 -> 2 and 2 -> 0 variable edges (must survive forget_monogamous)
        Lax { d: Diagram { nodes: vec![1, 1, 1, 1], edges: vec![e(VAR, &[], &[0, 1]), e(VAR, &[2, 3], &[])], s: vec![2], t: vec![0, 1, 3] }, q: vec![] },
        // 0 -> 0 variable edge next to a 1 -> 1 one
        Lax { d: Diagram { nodes: vec![0, 0], edges: vec![e(VAR, &[], &[]), e(VAR, &[0], &[1]), e(5, &[1], &[0])], s: vec![0], t: vec![1] }, q: vec![] },
    ];
    for l in cases {
        ctx.set_dump(format!("fixed: {}", l.pretty()));
        forget_case(ctx, &l)?;
    }
    // x + x with a free variable x
    let p = Prog { input_labels: vec![0], steps: vec![Step::Bin(0, 0, 0), Step::Un(3, 1)], outputs: vec![2, 0], smuggle: false, extra_inputs: vec![] };
    ctx.set_dump(format!("fixed: {:?}", p));
    program_case(ctx, &p, &[vec![21]])
}
