//! C01 — sequential composition is exactly the gluing (pushout) of the two diagrams
use super::common::*;
use crate::engine::*;
use crate::ensure;
use crate::gen;
use crate::kinds::vec_inst as sv;
use crate::model::{partition_of_pairs, Diagram};
use crate::tape::Tape;
use open_hypergraphs::category::Arrow;

pub static PROP: Prop = Prop {
    id: "C01",
    title: "Sequential composition is exactly the gluing (pushout) of the two diagrams",
    check,
    max_tape: (300, 460),
    cases: (150_000, 1_500_000),
    both_profiles: false,
    rule: "pairs (f,g) of generated well-formed diagrams, g's source interface re-attached to have f's target type (85%) or perturbed to mismatch (15%); non-trivial = types match, shared boundary length >= 1 and at least one hyperedge in f or g; distinct = hash of (f,g)",
    assumptions: &[
        "the plain Vec/union-find model of gluing is the specification of the pushout",
        "the isomorphism decision procedure is sound (validated against brute force in the selftest sub-checks)",
    ],
    fixed: None,
    scale: Some(super::scale::c01),
};

/// two diagrams glued along a large, heavily non-injective boundary (16..128 wires) whose order
/// makes the gluing's union-find forest deep
fn big_boundary(t: &mut Tape, ctx: &mut Ctx) -> CheckResult {
    ctx.class("big-boundary");
    let k = t.range(3, 6);
    let (nf, ng, ft, gs) = gen::tournament_boundary(t, k);
    let drop = t.choice(3);
    let keep = ft.len() - drop.min(ft.len());
    let mut f = Diagram { nodes: vec![0; nf], edges: vec![], s: vec![], t: ft[..keep].to_vec() };
    let mut g = Diagram { nodes: vec![0; ng], edges: vec![], s: gs[..keep].to_vec(), t: vec![] };
    // a little structure around the boundary
    for _ in 0..t.choice(3) {
        let (a, b) = (t.choice(nf), t.choice(nf));
        f.edges.push(crate::model::Edge { label: t.choice(2) as u32, src: vec![a], tgt: vec![b] });
        f.s.push(t.choice(nf));
    }
    for _ in 0..t.choice(3) {
        let (a, b) = (t.choice(ng), t.choice(ng));
        g.edges.push(crate::model::Edge { label: t.choice(2) as u32, src: vec![a, b], tgt: vec![] });
        g.t.push(t.choice(ng));
    }
    ctx.set_dump(format!("f = {}\ng = {}", f.pretty(), g.pretty()));
    let got = wf(ctx, "compose-wf", sv::op_compose(&f, &g), "f >> g")?.ok_or_else(|| ctx.fail("compose-defined", "types match but composition returned None"))?;
    let want = f.compose(&g).expect("types match");
    ensure!(ctx, got.nodes.len() == want.nodes.len(), "compose-node-count", "composite has {} nodes, gluing has {} (boundary of {} wires)", got.nodes.len(), want.nodes.len(), keep);
    require_iso(ctx, "compose-is-pushout", &got, &want, "f ; g (large boundary)")?;
    ctx.nontrivial(&(&f, &g));
    Ok(())
}

/// lax composition of operands that still carry pending unifications, strictified
fn lax_compose_case(t: &mut Tape, ctx: &mut Ctx) -> CheckResult {
    use crate::lax_ops::*;
    use crate::model::Lax;
    ctx.class("lax-compose");
    let sz = ctx.sizes;
    let al = gen::alpha(t, &sz);
    let fd = gen::diagram(t, &sz, al, ctx);
    let mut gd = gen::diagram(t, &sz, al, ctx);
    gen::with_source_type(t, &mut gd, &fd.target_type());
    let f = Lax { q: gen::pending_pairs(t, &fd, 3, true), d: fd };
    let g = Lax { q: gen::pending_pairs(t, &gd, 3, true), d: gd };
    ctx.set_dump(format!("lax f = {}\nlax g = {}", f.pretty(), g.pretty()));
    let via_api = t.chance(1, 2);
    let (lf0, lg0) = if via_api { (to_lax_api(&f), to_lax_api(&g)) } else { (to_lax(&f), to_lax(&g)) };
    let c = Arrow::compose(&lf0, &lg0).ok_or_else(|| ctx.fail("compose-defined", "lax composition undefined although the types match"))?;
    let got = wf(ctx, "compose-wf", sv::from_strict(&c.clone().to_strict()), "strict(lax f ; lax g)")?;
    let want = f.strictify().unwrap().compose(&g.strictify().unwrap()).expect("types match");
    require_iso(ctx, "lax-compose-is-pushout", &got, &want, "strict(f ; g) for lax operands with pending unifications")?;
    // the gluing carried out in place, by `quotient` and by its deprecated alias
    #[allow(deprecated)]
    for (name, which) in [("quotient", 0), ("quotient_witness", 1)] {
        let mut glued = c.clone();
        let r = if which == 0 { glued.quotient() } else { glued.quotient_witness() };
        ensure!(ctx, r.is_ok(), "lax-compose-is-pushout", "{name}() of a lax composite of consistently labelled operands failed");
        let got = wf(ctx, "compose-wf", from_lax(&glued), "lax composite after quotient")?;
        ensure!(ctx, got.q.is_empty(), "lax-compose-is-pushout", "{name}() left pending unifications");
        require_iso(ctx, "lax-compose-is-pushout", &got.d, &want, &format!("lax f ; g glued in place by {name}()"))?;
    }
    // when the types differ (same arity, one label changed) every lax entry point reports failure
    if !f.d.t.is_empty() && al.nl >= 2 {
        let mut bad = g.clone();
        let i = t.choice(bad.d.s.len());
        let old = bad.d.nodes[bad.d.s[i]];
        bad.d.nodes.push((old + 1) % al.nl as u32);
        bad.d.s[i] = bad.d.nodes.len() - 1;
        ctx.sub("compose-rejects-mismatch");
        let (lf, lb) = (to_lax(&f), to_lax(&bad));
        ensure!(ctx, Arrow::compose(&lf, &lb).is_none(), "compose-rejects-mismatch", "lax compose returned a diagram although the types differ");
        ensure!(ctx, (&lf >> &lb).is_none(), "compose-rejects-mismatch", "lax >> returned a diagram although the types differ ({:?} vs {:?})", f.d.target_type(), bad.d.source_type());
    }
    // arities that differ in either direction (the shorter boundary agreeing with a prefix of the longer)
    {
        ctx.sub("compose-rejects-mismatch");
        let mut longer = g.clone();
        let extra = t.range(1, 2);
        for _ in 0..extra {
            longer.d.nodes.push(t.choice(al.nl) as u32);
            longer.d.s.push(longer.d.nodes.len() - 1);
        }
        let lf = to_lax(&f);
        let ll = to_lax(&longer);
        ensure!(ctx, Arrow::compose(&lf, &ll).is_none() && (&lf >> &ll).is_none() && lf.lax_compose(&ll).is_none(), "compose-rejects-mismatch", "a lax composition accepted a right operand with {extra} more input(s) than the left operand has outputs");
        if !g.d.s.is_empty() {
            let mut shorter = g.clone();
            shorter.d.s.pop();
            let ls = to_lax(&shorter);
            ensure!(ctx, Arrow::compose(&lf, &ls).is_none() && (&lf >> &ls).is_none() && lf.lax_compose(&ls).is_none(), "compose-rejects-mismatch", "a lax composition accepted a right operand with one input fewer than the left operand has outputs");
        }
    }
    if !f.d.t.is_empty() && (!f.q.is_empty() || !g.q.is_empty()) {
        ctx.nontrivial(&(&f, &g));
    }
    Ok(())
}

fn check(t: &mut Tape, ctx: &mut Ctx) -> CheckResult {
    match t.weighted(&[16, 1, 3]) {
        1 => return big_boundary(t, ctx),
        2 => return lax_compose_case(t, ctx),
        _ => {}
    }
    let sz = ctx.sizes;
    let al = gen::alpha(t, &sz);
    let mismatch = t.weighted(&[17, 3]) == 1;
    let mut ds = gen::composable(t, &sz, al, 2, ctx);
    let mut g = ds.pop().unwrap();
    let f = ds.pop().unwrap();
    if mismatch {
        gen::mismatch_source(t, &mut g, &f.target_type(), al);
        // the offending node may sit anywhere in g's numbering (it was appended last)
        let np = t.permutation(g.nodes.len());
        let ep = t.permutation(g.edges.len());
        g = g.renumber(&np, &ep);
    }
    gen::classify(&f, ctx);
    gen::classify(&g, ctx);
    ctx.set_dump(format!("f = {}\ng = {}", f.pretty(), g.pretty()));
    let types_match = f.target_type() == g.source_type();

    let got = wf(ctx, "compose-wf", sv::op_compose(&f, &g), "f >> g")?;
    // the trait method must agree with the operator
    let (sf_, sg) = (sv::to_strict(&f), sv::to_strict(&g));
    let via_trait = Arrow::compose(&sf_, &sg);
    ensure!(
        ctx,
        via_trait.is_some() == got.is_some(),
        "compose-definedness",
        "Arrow::compose and >> disagree on definedness"
    );

    if !types_match {
        ctx.class("type-mismatch");
        ctx.sub("compose-rejects-mismatch");
        ensure!(
            ctx,
            got.is_none(),
            "compose-rejects-mismatch",
            "types differ ({:?} vs {:?}) but composition returned a diagram",
            f.target_type(),
            g.source_type()
        );
        return Ok(());
    }
    ctx.sub("compose-defined");
    let Some(got) = got else {
        return Err(ctx.fail(
            "compose-defined",
            format!("types match ({:?}) but composition returned None", f.target_type()),
        ));
    };
    let want = f.compose(&g).expect("model composition defined when types match");

    // classes: how much collapses
    let n = f.nodes.len();
    let pairs: Vec<(usize, usize)> = f.t.iter().zip(&g.s).map(|(&a, &b)| (a, b + n)).collect();
    let (q, k) = partition_of_pairs(n + g.nodes.len(), &pairs);
    let mut sizes = vec![0usize; k];
    for &c in &q {
        sizes[c] += 1;
    }
    ctx.class_if(sizes.iter().any(|&s| s >= 3), "chain-collapses>=3");
    ctx.class_if(!pairs.is_empty(), "boundary>=1");

    ensure!(
        ctx,
        got.nodes.len() == want.nodes.len(),
        "compose-node-count",
        "composite has {} nodes, gluing has {}\n  got : {}\n  want: {}",
        got.nodes.len(),
        want.nodes.len(),
        got.pretty(),
        want.pretty()
    );
    require_iso(ctx, "compose-is-pushout", &got, &want, "f ; g")?;
    // second path must give the same data
    let got2 = wf(ctx, "compose-wf", sv::from_strict(&via_trait.unwrap()), "Arrow::compose")?;
    ensure!(
        ctx,
        got2 == got,
        "compose-trait-equals-operator",
        "Arrow::compose and >> returned different data"
    );

    if !pairs.is_empty() && (!f.edges.is_empty() || !g.edges.is_empty()) {
        ctx.nontrivial(&(&f, &g));
        if ctx.want_sample {
            ctx.sample = Some(format!(
                "f = {} ; g = {} ; f;g = {}",
                f.pretty(),
                g.pretty(),
                got.pretty()
            ));
        }
    }
    Ok(())
}
