//! C07 — array primitives of the Vec backend meet their element-wise contract
use crate::engine::*;
use crate::tape::Tape;

pub static PROP: Prop = Prop {
    id: "C07",
    title: "Array primitives of the Vec backend meet their element-wise contract",
    check,
    max_tape: (200, 260),
    cases: (400_000, 6_000_000),
    both_profiles: false,
    rule: "arrays over usize and i16 of length 0..12 (thorough 0..20), index arrays within bounds, all range forms inside bounds, edge lists with self loops and parallel edges over n <= 10 nodes; one primitive group per case, each compared with a scalar reference loop (open choices accepted in any conforming form); non-trivial = length >= 2 (components: >= 2 nodes, >= 2 components, >= 1 edge); distinct = hash of the generated data",
    assumptions: &[
        "the scalar definition of scatter / scatter_assign / scatter_sub_assign is the loop over i in index order (so for repeated indices the last write wins, and subtraction accumulates)",
        "the harness's own AdvKind backend is run through the same contract in every configuration as a self-check (a failure there is a harness error, not a violation)",
    ],
    fixed: None,
    scale: Some(super::scale::c07),
};

mod v {
    use crate::kinds::vec_inst::{mk, un, Arr, K};
    include!("c07_body.rs");
}
mod a {
    use crate::kinds::adv_inst::{mk, un, Arr, K};
    include!("c07_body.rs");
}

/// an element type whose `+` and `-` are not commutative / not symmetric
#[derive(Clone, Copy, PartialEq, Eq, Debug, Hash)]
struct Nc(i64);
impl core::ops::Add for Nc {
    type Output = Nc;
    fn add(self, r: Nc) -> Nc {
        Nc(self.0.wrapping_mul(3).wrapping_add(r.0))
    }
}
impl core::ops::Sub for Nc {
    type Output = Nc;
    fn sub(self, r: Nc) -> Nc {
        Nc(self.0.wrapping_mul(5).wrapping_sub(r.0))
    }
}

/// element-wise `+` / `-` of the Vec backend are generic in the element type: out[i] = self[i] op rhs[i]
fn generic_elementwise(t: &mut Tape, ctx: &mut Ctx) -> CheckResult {
    use crate::ensure;
    use open_hypergraphs::array::vec::VecArray;
    ctx.class("group:generic-elementwise");
    let n = t.range(0, 12);
    let x: Vec<Nc> = (0..n).map(|_| Nc(t.choice(9) as i64 - 4)).collect();
    let y: Vec<Nc> = (0..n).map(|_| Nc(t.choice(9) as i64 - 4)).collect();
    ctx.set_dump(format!("x = {:?} y = {:?}", x, y));
    ctx.sub("elementwise-add-sub-generic");
    let s = VecArray(x.clone()) + VecArray(y.clone());
    let want: Vec<Nc> = x.iter().zip(&y).map(|(a, b)| *a + *b).collect();
    ensure!(ctx, s.0 == want, "elementwise-add-sub-generic", "x + y = {:?} want {:?} (element type with a non-commutative +)", s.0, want);
    let d = VecArray(x.clone()) - VecArray(y.clone());
    let want: Vec<Nc> = x.iter().zip(&y).map(|(a, b)| *a - *b).collect();
    ensure!(ctx, d.0 == want, "elementwise-add-sub-generic", "x - y = {:?} want {:?}", d.0, want);
    if n >= 2 {
        ctx.nontrivial(&("generic-elementwise", &x, &y));
    }
    Ok(())
}

fn check(t: &mut Tape, ctx: &mut Ctx) -> CheckResult {
    {
        let mut probe = t.clone();
        if probe.choice(25) == 0 {
            t.word();
            return generic_elementwise(t, ctx);
        }
    }
    // self-check of the harness's second backend on the same case, in a tape-chosen configuration
    let mut t2 = t.clone();
    let r = v::run(t, ctx);
    if r.is_ok() {
        let cfg = {
            let mut t3 = t.clone();
            t3.word() as u64 & 0xfff
        };
        crate::advkind::set_config(cfg);
        let mut ctx2 = Ctx::new(ctx.tier, false);
        let r2 = a::run(&mut t2, &mut ctx2);
        crate::advkind::set_config(0);
        if let Err(v) = r2 {
            panic!("harness: AdvKind (config {cfg:#x}) violates the array contract: {} / {} / {}", v.sub_check, v.message, v.dump);
        }
        ctx.sub("advkind-self-check");
    }
    r
}
