//! C02 — tensor product is strict juxtaposition
use super::common::*;
use crate::engine::*;
use crate::ensure;
use crate::gen;
use crate::kinds::vec_inst as sv;
use crate::lax_ops::*;
use crate::model::{Diagram, Lax};
use crate::tape::Tape;
use open_hypergraphs::category::{Arrow, Monoidal};

pub static PROP: Prop = Prop {
    id: "C02",
    title: "Tensor product is strict juxtaposition",
    check,
    max_tape: (320, 600),
    cases: (60_000, 1_000_000),
    both_profiles: false,
    rule: "triples (f,g,h) of generated well-formed diagrams, strict and lax (lax ones with random pending pairs); non-trivial = f and g both have >= 1 node and at least one of them has a hyperedge or an interface leg; distinct = hash of (f,g,h, pending pairs)",
    assumptions: &["field-for-field comparison after decoding every raw table (segment sizes, codomains) of the strict result"],
    fixed: None,
    scale: None,
};

fn check(t: &mut Tape, ctx: &mut Ctx) -> CheckResult {
    let sz = ctx.sizes;
    let al = gen::alpha(t, &sz);
    let f = gen::lax(t, &sz, al, false, ctx);
    let g = gen::lax(t, &sz, al, false, ctx);
    let h = gen::lax(t, &sz, al, false, ctx);
    gen::classify(&f.d, ctx);
    gen::classify(&g.d, ctx);
    ctx.set_dump(format!("f = {}\ng = {}\nh = {}", f.pretty(), g.pretty(), h.pretty()));

    // ---- strict
    let want = f.d.juxtapose(&g.d);
    ctx.sub("strict-tensor-is-juxtaposition");
    let got = wf(ctx, "strict-tensor-wf", sv::op_tensor(&f.d, &g.d), "f | g")?;
    ensure!(ctx, got == want, "strict-tensor-is-juxtaposition", "f|g differs from juxtaposition\n  got : {}\n  want: {}", got.pretty(), want.pretty());
    let (sf_, sg, sh) = (sv::to_strict(&f.d), sv::to_strict(&g.d), sv::to_strict(&h.d));
    let via_trait = wf(ctx, "strict-tensor-wf", sv::from_strict(&Monoidal::tensor(&sf_, &sg)), "Monoidal::tensor")?;
    ensure!(ctx, via_trait == want, "strict-tensor-is-juxtaposition", "Monoidal::tensor differs from juxtaposition\n  got : {}\n  want: {}", via_trait.pretty(), want.pretty());
    // hypergraph level: coproduct and its `+` sugar are the same juxtaposition
    ctx.sub("strict-coproduct-is-juxtaposition");
    let (hf, hg) = (sv::to_strict_h(&f.d), sv::to_strict_h(&g.d));
    let mut wh = want.clone();
    wh.s.clear();
    wh.t.clear();
    let c1 = wf(ctx, "strict-tensor-wf", sv::from_strict_h(&hf.coproduct(&hg)), "h1.coproduct(h2)")?;
    let c2 = wf(ctx, "strict-tensor-wf", sv::from_strict_h(&(&hf + &hg)), "&h1 + &h2")?;
    ensure!(ctx, c1 == wh && c2 == wh, "strict-coproduct-is-juxtaposition", "hypergraph coproduct differs from juxtaposition\n  got : {}\n  want: {}", c1.pretty(), wh.pretty());
    // type of the result
    ctx.sub("strict-tensor-type");
    let fg = &sf_ | &sg;
    let mut ty = f.d.source_type();
    ty.extend(g.d.source_type());
    ensure!(ctx, sv::unty(&fg.source()) == ty, "strict-tensor-type", "source type {:?} want {:?}", sv::unty(&fg.source()), ty);
    let mut ty = f.d.target_type();
    ty.extend(g.d.target_type());
    ensure!(ctx, sv::unty(&fg.target()) == ty, "strict-tensor-type", "target type {:?} want {:?}", sv::unty(&fg.target()), ty);
    // associativity and unit, as equal data
    ctx.sub("strict-tensor-assoc-unit");
    let l = wf(ctx, "strict-tensor-wf", sv::from_strict(&(&fg | &sh)), "(f|g)|h")?;
    let r = wf(ctx, "strict-tensor-wf", sv::from_strict(&(&sf_ | &(&sg | &sh))), "f|(g|h)")?;
    ensure!(ctx, l == r, "strict-tensor-assoc-unit", "(f|g)|h != f|(g|h)\n  lhs: {}\n  rhs: {}", l.pretty(), r.pretty());
    ensure!(ctx, l == want.juxtapose(&h.d), "strict-tensor-assoc-unit", "(f|g)|h is not the triple juxtaposition: {}", l.pretty());
    let unit: sv::SOH = sv::SOH::identity(<sv::SOH as Monoidal>::unit());
    let lu = wf(ctx, "strict-tensor-wf", sv::from_strict(&(&unit | &sf_)), "unit|f")?;
    let ru = wf(ctx, "strict-tensor-wf", sv::from_strict(&(&sf_ | &unit)), "f|unit")?;
    ensure!(ctx, lu == f.d && ru == f.d, "strict-tensor-assoc-unit", "unit law: unit|f = {} ; f|unit = {}", lu.pretty(), ru.pretty());
    // raw equality of the library values as well (FiniteFunction / IndexedCoproduct implement PartialEq)
    let a = &fg | &sh;
    let b = &sf_ | &(&sg | &sh);
    ensure!(
        ctx,
        a.s == b.s && a.t == b.t && a.h.s == b.h.s && a.h.t == b.h.t && a.h.w == b.h.w && a.h.x == b.h.x,
        "strict-tensor-assoc-unit",
        "raw fields of (f|g)|h and f|(g|h) differ"
    );

    // ---- lax
    ctx.sub("lax-tensor-is-juxtaposition");
    let (lf, lg, lh) = (to_lax(&f), to_lax(&g), to_lax(&h));
    let wantl = f.juxtapose(&g);
    let gotl = wf(ctx, "lax-tensor-wf", from_lax(&lf.tensor(&lg)), "lax f.tensor(g)")?;
    ensure!(ctx, gotl == wantl, "lax-tensor-is-juxtaposition", "lax tensor differs\n  got : {}\n  want: {}", gotl.pretty(), wantl.pretty());
    let gotl2 = wf(ctx, "lax-tensor-wf", from_lax(&(&lf | &lg)), "lax f | g")?;
    ensure!(ctx, gotl2 == wantl, "lax-tensor-is-juxtaposition", "lax | differs\n  got : {}\n  want: {}", gotl2.pretty(), wantl.pretty());
    let gotl3 = wf(ctx, "lax-tensor-wf", from_lax(&Monoidal::tensor(&lf, &lg)), "lax Monoidal::tensor")?;
    ensure!(ctx, gotl3 == wantl, "lax-tensor-is-juxtaposition", "lax Monoidal::tensor differs");
    // in-place form: the same literal juxtaposition (hyperedges of f first, then those of g)
    ctx.sub("lax-tensor-assign-is-juxtaposition");
    let mut ta = lf.clone();
    ta.tensor_assign(lg.clone());
    let got_ta = wf(ctx, "lax-tensor-wf", from_lax(&ta), "lax tensor_assign")?;
    ensure!(ctx, got_ta == wantl, "lax-tensor-assign-is-juxtaposition", "tensor_assign differs from juxtaposition\n  got : {}\n  want: {}", got_ta.pretty(), wantl.pretty());
    ctx.sub("lax-tensor-assoc-unit");
    let l = lf.tensor(&lg).tensor(&lh);
    let r = lf.tensor(&lg.tensor(&lh));
    ensure!(ctx, l == r, "lax-tensor-assoc-unit", "lax (f|g)|h != f|(g|h)");
    let e = LOH::empty();
    ensure!(ctx, e.tensor(&lf) == lf && lf.tensor(&e) == lf, "lax-tensor-assoc-unit", "lax unit law fails");
    let mut ty = f.d.source_type();
    ty.extend(g.d.source_type());
    ensure!(
        ctx,
        crate::labels::unobs(&Arrow::source(&lf.tensor(&lg))) == ty,
        "lax-tensor-type",
        "lax source type of tensor"
    );
    let mut ty = f.d.target_type();
    ty.extend(g.d.target_type());
    ensure!(
        ctx,
        crate::labels::unobs(&Arrow::target(&lf.tensor(&lg))) == ty,
        "lax-tensor-type",
        "lax target type of tensor"
    );

    let _: (&Diagram, &Lax) = (&f.d, &f);
    let interesting = |l: &Lax| !l.d.edges.is_empty() || !l.d.s.is_empty() || !l.d.t.is_empty();
    if !f.d.nodes.is_empty() && !g.d.nodes.is_empty() && (interesting(&f) || interesting(&g)) {
        ctx.nontrivial(&(&f, &g, &h));
        ctx.class_if(!f.q.is_empty() || !g.q.is_empty(), "pending-pairs");
        if ctx.want_sample {
            ctx.sample = Some(format!("f = {} ; g = {} ; f|g = {}", f.pretty(), g.pretty(), wantl.pretty()));
        }
    }
    Ok(())
}
