//! C20 — results do not depend on unspecified choices of the array backend
use super::common::*;
use crate::advkind;
use crate::engine::*;
use crate::ensure;
use crate::gen;
use crate::kinds::adv_inst as sa;
use crate::kinds::vec_inst as sv;
use crate::tape::Tape;

pub static PROP: Prop = Prop {
    id: "C20",
    title: "Results do not depend on unspecified choices of the array backend",
    check,
    max_tape: (520, 900),
    cases: (100_000, 1_000_000),
    both_profiles: false,
    rule: "the generators of C01, C02, C12, C14, C15, C16, C17 and C18 crossed with a 12-bit configuration of a second, contract-conforming array backend (argsort tie order, component numbering, sparse-bincount key order, scatter filler each resolved in 1 of 8 ways); the same public operation is run at VecKind and at the second backend and structural results are compared up to isomorphism, predicate / evaluation / morphism outcomes for equality, layerings by the validity predicate with identical unvisited flags; non-trivial = configuration != 0 and the case actually exercised an open choice (counted inside the backend); distinct = hash of (group, configuration, generated data)",
    assumptions: &[
        "the second backend conforms to the documented array contract (it passes the C07 contract checks in every configuration, run as a self-check inside C07)",
        "only the four open choices the property enumerates are varied",
    ],
    fixed: Some(fixed),
    scale: None,
};

fn check(t: &mut Tape, ctx: &mut Ctx) -> CheckResult {
    let cfg = match t.weighted(&[1, 9]) {
        0 => 0,
        _ => (t.word() as u64) & 0xfff,
    };
    let group = t.choice(8);
    let r = run_group(t, ctx, cfg, group);
    advkind::set_config(0);
    r
}

fn with_adv<T>(cfg: u64, f: impl FnOnce() -> T) -> (T, [u64; 4]) {
    advkind::set_config(cfg);
    let r = f();
    let used = advkind::used();
    advkind::set_config(0);
    (r, used)
}

fn finish(ctx: &mut Ctx, cfg: u64, used: [u64; 4], key: u64, sample: String) {
    ctx.class_if(used[0] > 0, "exercised:argsort-ties");
    ctx.class_if(used[1] > 0, "exercised:components>=2");
    ctx.class_if(used[2] > 0, "exercised:sparse-keys>=2");
    ctx.class_if(used[3] > 0, "exercised:unwritten-scatter-slot");
    ctx.class_if(cfg == 0, "config-0");
    if cfg != 0 && used.iter().any(|&u| u > 0) {
        ctx.nontrivial(&(cfg, key));
        if ctx.want_sample {
            ctx.sample = Some(format!("config {cfg:#05x} open choices exercised {:?}: {}", used, sample));
        }
    }
}

fn run_group(t: &mut Tape, ctx: &mut Ctx, cfg: u64, group: usize) -> CheckResult {
    let sz = ctx.sizes;
    let al = gen::alpha(t, &sz);
    match group {
        0 => {
            ctx.class("group:compose+tensor");
            let ds = gen::composable(t, &sz, al, 2, ctx);
            ctx.set_dump(format!("config {cfg:#x}\nf = {}\ng = {}", ds[0].pretty(), ds[1].pretty()));
            let v = wf(ctx, "vec-wf", sv::op_compose(&ds[0], &ds[1]), "VecKind f;g")?;
            let (a, used) = with_adv(cfg, || sa::op_compose(&ds[0], &ds[1]));
            let a = wf(ctx, "adv-wf", a, "second backend f;g")?;
            ensure!(ctx, v.is_some() == a.is_some(), "compose-backend-independent", "composition defined at VecKind = {} but at the second backend = {}", v.is_some(), a.is_some());
            if let (Some(v), Some(a)) = (&v, &a) {
                require_iso(ctx, "compose-backend-independent", a, v, "f;g at the second backend vs VecKind")?;
                ctx.class_if(cfg == 0 && a != v, "config0-differs-from-vec");
            }
            let vt = wf(ctx, "vec-wf", sv::op_tensor(&ds[0], &ds[1]), "VecKind f|g")?;
            let (at, u2) = with_adv(cfg, || sa::op_tensor(&ds[0], &ds[1]));
            let at = wf(ctx, "adv-wf", at, "second backend f|g")?;
            ensure!(ctx, at == vt, "tensor-backend-independent", "f|g differs between the backends");
            let u = [used[0] + u2[0], used[1] + u2[1], used[2] + u2[2], used[3] + u2[3]];
            finish(ctx, cfg, u, hash64(&ds), ctx.dump.replace('\n', " ; "));
        }
        1 => {
            ctx.class("group:functor");
            let d = gen::diagram(t, &sz, al, ctx);
            let table = super::c12::table_for(t, ctx, al, &[&d]);
            ctx.set_dump(format!("config {cfg:#x}\nd = {}\nF = {}", d.pretty(), table.pretty()));
            let v = wf(ctx, "vec-wf", sv::op_map_arrow(&table, &d), "VecKind F(d)")?;
            let (a, used) = with_adv(cfg, || sa::op_map_arrow(&table, &d));
            let a = wf(ctx, "adv-wf", a, "second backend F(d)")?;
            require_iso(ctx, "functor-backend-independent", &a, &v, "F(d) at the second backend vs VecKind")?;
            finish(ctx, cfg, used, hash64(&(&d, &table.obj, &table.ops)), ctx.dump.replace('\n', " ; "));
        }
        2 => {
            ctx.class("group:optic");
            let d = gen::diagram(t, &gen::small_sizes(), al, ctx);
            let keys = gen::op_keys(&[&d]);
            let o = gen::optic_table(t, al, al, &keys, ctx);
            ctx.set_dump(format!("config {cfg:#x}\nd = {}\noptic = {}", d.pretty(), o.pretty()));
            let v = wf(ctx, "vec-wf", sv::op_optic(&o, &d), "VecKind Optic(d)")?;
            let va = wf(ctx, "vec-wf", sv::op_optic_adapted(&o, &d), "VecKind adapted")?;
            let ((a, aa), used) = with_adv(cfg, || (sa::op_optic(&o, &d), sa::op_optic_adapted(&o, &d)));
            let a = wf(ctx, "adv-wf", a, "second backend Optic(d)")?;
            let aa = wf(ctx, "adv-wf", aa, "second backend adapted")?;
            require_iso(ctx, "optic-backend-independent", &a, &v, "Optic(d) at the second backend vs VecKind")?;
            require_iso(ctx, "optic-backend-independent", &aa, &va, "adapted optic at the second backend vs VecKind")?;
            finish(ctx, cfg, used, hash64(&(&d, &o.fwd.ops, &o.rev.ops, &o.residual)), ctx.dump.replace('\n', " ; "));
        }
        3 => {
            ctx.class("group:layer");
            let d = gen::diagram(t, &sz, al, ctx);
            ctx.set_dump(format!("config {cfg:#x}\nd = {}", d.pretty()));
            let (_, vflags) = wf(ctx, "vec-wf", sv::op_layer(&d), "VecKind layer")?;
            let (r, used) = with_adv(cfg, || (sa::op_layer(&d), sa::op_layered_operations(&d)));
            let (order, flags) = wf(ctx, "adv-wf", r.0, "second backend layer")?;
            let re = super::c15::reference(&d);
            super::c15::validate_layering(ctx, &d, &re, &order, &flags)?;
            ensure!(ctx, flags == vflags, "layer-backend-independent", "unvisited flags differ between the backends: {:?} vs {:?}", flags, vflags);
            let (groups, f2) = r.1;
            ensure!(ctx, f2 == flags, "layer-backend-independent", "layered_operations flags differ at the second backend");
            for x in 0..d.edges.len() {
                if !re.bad[x] {
                    let places: Vec<usize> = groups.iter().enumerate().filter(|(_, g)| g.contains(&x)).map(|(i, _)| i).collect();
                    ensure!(ctx, places == vec![order[x]], "layer-backend-independent", "second backend: visited operation {x} of layer {} listed in groups {:?}", order[x], places);
                }
            }
            finish(ctx, cfg, used, hash64(&d), ctx.dump.replace('\n', " ; "));
        }
        4 => {
            ctx.class("group:eval");
            let nin = t.range(0, 3);
            let nops = t.range(0, sz.edges + 3);
            let nout = t.range(0, 4);
            let d = if t.chance(1, 4) {
                let mut d = gen::diagram(t, &sz, al, ctx);
                for e in d.edges.iter_mut() {
                    e.label = 200 + e.tgt.len() as u32;
                }
                d
            } else {
                let flat = ctx.medium && t.chance(1, 2);
                gen::write_once_dag_shaped(t, super::c16::SIG, if flat { nin.max(1) } else { nin }, nops, nout, flat)
            };
            let inputs: Vec<u64> = (0..d.s.len()).map(|_| t.small_u64()).collect();
            ctx.set_dump(format!("config {cfg:#x}\nd = {} inputs {:?}", d.pretty(), inputs));
            let write_once = d.edges.iter().all(|e| e.label < 200);
            let (v, _) = sv::op_eval(&d, &inputs, &super::c16::interp_nc);
            let ((a, _), used) = with_adv(cfg, || sa::op_eval(&d, &inputs, &super::c16::interp_nc));
            ctx.sub("eval-backend-independent");
            ensure!(ctx, v.is_some() == a.is_some(), "eval-backend-independent", "eval defined at VecKind = {} but at the second backend = {}", v.is_some(), a.is_some());
            if write_once {
                ensure!(ctx, v == a, "eval-backend-independent", "eval gives {:?} at VecKind and {:?} at the second backend", v, a);
            }
            finish(ctx, cfg, used, hash64(&(&d, &inputs)), ctx.dump.replace('\n', " ; "));
        }
        5 => {
            ctx.class("group:predicates");
            let d = if t.chance(1, 3) {
                let nin = t.range(0, 3);
                let nops = t.range(0, 6);
                gen::monogamous_circuit(t, super::c17::SIG, nin, nops)
            } else {
                gen::diagram(t, &sz, al, ctx)
            };
            ctx.set_dump(format!("config {cfg:#x}\nd = {}", d.pretty()));
            let v = (sv::op_is_acyclic(&d), sv::op_is_monogamous(&d), sv::op_degrees(&d));
            let (a, used) = with_adv(cfg, || (sa::op_is_acyclic(&d), sa::op_is_monogamous(&d), sa::op_degrees(&d)));
            ctx.sub("predicates-backend-independent");
            ensure!(ctx, v == a, "predicates-backend-independent", "(is_acyclic, is_monogamous, degrees) = {:?} at VecKind but {:?} at the second backend", v, a);
            finish(ctx, cfg, used, hash64(&d), ctx.dump.replace('\n', " ; "));
        }
        _ => {
            ctx.class("group:morphisms");
            // inclusions, folds and flawed inclusions as in C18, through both backends
            let base = super::c18::hyper(t, ctx, al);
            let mut a = if t.chance(1, 4) { super::c18::fold(t, &base) } else { super::c18::inclusion(t, &base) };
            if t.chance(1, 4) {
                super::c18::plant_flaw(t, &mut a, al);
            }
            let (h, g, w, keep) = (a.h.clone(), a.g.clone(), a.w.clone(), a.x.clone());
            ctx.set_dump(format!("config {cfg:#x}\nH = {}\nG = {}\nw = {:?} -> {} x = {:?} -> {}", h.pretty(), g.pretty(), w, a.wt, keep, a.xt));
            let v = sv::op_arrow(&h, &g, (&w, a.wt), (&keep, a.xt));
            let (r, used) = with_adv(cfg, || sa::op_arrow(&h, &g, (&w, a.wt), (&keep, a.xt)));
            let a = r;
            ctx.sub("morphisms-backend-independent");
            ensure!(ctx, (v.0 == "Ok") == (a.0 == "Ok") && v.1 == a.1, "morphisms-backend-independent", "morphism outcome {:?} at VecKind but {:?} at the second backend", v, a);
            finish(ctx, cfg, used, hash64(&(&h, &g, &w, &keep)), ctx.dump.replace('\n', " ; "));
        }
    }
    Ok(())
}

/// hand-written regression case: composition over the empty boundary with reversed component numbering
fn fixed(ctx: &mut Ctx) -> CheckResult {
    use crate::model::Diagram;
    let f = Diagram::singleton(10, &[1, 2], &[]);
    let g = Diagram::singleton(20, &[], &[0]);
    for cfg in [0u64, 0o10, 0o20, 0o7777] {
        ctx.set_dump(format!("fixed: config {cfg:#x} f = {} g = {}", f.pretty(), g.pretty()));
        let v = wf(ctx, "vec-wf", sv::op_compose(&f, &g), "VecKind f;g")?.unwrap();
        let (a, _) = with_adv(cfg, || sa::op_compose(&f, &g));
        let a = wf(ctx, "adv-wf", a, "second backend f;g")?.ok_or_else(|| ctx.fail("compose-backend-independent", "undefined at the second backend"))?;
        require_iso(ctx, "compose-backend-independent", &a, &v, "f;g at the second backend vs VecKind")?;
    }
    Ok(())
}
