//! One module per property.
use crate::engine::Prop;

pub mod common;
pub mod scale;
pub mod c01;
pub mod c02;
pub mod c03;
pub mod c04;
pub mod c05;
pub mod c06;
pub mod c07;
pub mod c08;
pub mod c09;
pub mod c10;
pub mod c11;
pub mod c12;
pub mod c13;
pub mod c14;
pub mod c15;
pub mod c16;
pub mod c17;
pub mod c18;
pub mod c19;
pub mod c20;

pub static ALL: &[&Prop] = &[&c01::PROP, &c02::PROP, &c03::PROP, &c04::PROP, &c05::PROP, &c06::PROP, &c07::PROP, &c08::PROP, &c09::PROP, &c10::PROP, &c11::PROP, &c12::PROP, &c13::PROP, &c14::PROP, &c15::PROP, &c16::PROP, &c17::PROP, &c18::PROP, &c19::PROP, &c20::PROP];
