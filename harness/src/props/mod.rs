//! One module per property.
use crate::engine::Prop;

pub mod common;
pub mod c01;
pub mod c15;

pub static ALL: &[&Prop] = &[&c01::PROP, &c15::PROP];
