//! C03 — symmetric monoidal category laws hold up to genuine isomorphism
use super::common::*;
use crate::engine::*;
use crate::ensure;
use crate::gen;
use crate::iso::{iso, iso_brute, IsoResult};
use crate::kinds::vec_inst as sv;
use crate::model::Diagram;
use crate::tape::Tape;
use open_hypergraphs::category::SymmetricMonoidal;

pub static PROP: Prop = Prop {
    id: "C03",
    title: "Symmetric monoidal category laws hold up to genuine isomorphism",
    check,
    max_tape: (520, 860),
    cases: (40_000, 800_000),
    both_profiles: false,
    rule: "one law group per case: (a) composable triples for associativity and unit laws, (b) two composable pairs for interchange, (c) two arbitrary diagrams plus three object lists for naturality, involutivity and both hexagons; both sides computed through the public API and compared by the isomorphism decision procedure; non-trivial = every diagram involved has >= 1 hyperedge and >= 1 boundary leg (for (c): |A|,|B| >= 1 and A != B); distinct = hash of the generated diagrams and lists",
    assumptions: &[
        "isomorphism = bijections on nodes and hyperedges preserving labels, ordered incidence lists and both interfaces position by position",
        "a negative control (sigma_{A,A} vs id, and a point-mutated copy) must be reported non-isomorphic in the same run",
    ],
    fixed: None,
    scale: None,
};

fn m(ctx: &Ctx, f: &sv::SOH, what: &str) -> Result<Diagram, Violation> {
    wf(ctx, "law-operand-wf", sv::from_strict(f), what)
}

fn comp(ctx: &Ctx, a: &sv::SOH, b: &sv::SOH, what: &str) -> Result<sv::SOH, Violation> {
    (a >> b).ok_or_else(|| ctx.fail("law-composable", format!("{what}: composition undefined although the types match")))
}

fn interesting(d: &Diagram) -> bool {
    !d.edges.is_empty() && (!d.s.is_empty() || !d.t.is_empty())
}

fn check(t: &mut Tape, ctx: &mut Ctx) -> CheckResult {
    ctx.cap_medium(260);
    let sz = ctx.sizes;
    let al = gen::alpha(t, &sz);
    match t.weighted(&[3, 2, 3]) {
        0 => assoc_unit(t, ctx, al),
        1 => interchange(t, ctx, al),
        _ => symmetry(t, ctx, al),
    }
}

fn assoc_unit(t: &mut Tape, ctx: &mut Ctx, al: gen::Alpha) -> CheckResult {
    let sz = ctx.sizes;
    ctx.class("group:assoc+unit");
    let mut ds = gen::composable(t, &sz, al, 3, ctx);
    if t.weighted(&[11, 1]) == 1 {
        // f ; g glued along a large, heavily non-injective boundary in a balanced merge order
        ctx.class("big-boundary");
        let k = t.range(3, 6);
        let (nf, ng, ft, gs) = gen::tournament_boundary(t, k);
        let lab = ds[0].nodes.first().copied().unwrap_or(0);
        let base_f = ds[0].nodes.len();
        ds[0].nodes.extend(std::iter::repeat(lab).take(nf));
        ds[0].t = ft.iter().map(|&v| v + base_f).collect();
        let mut g = Diagram { nodes: vec![lab; ng], edges: vec![], s: gs, t: vec![] };
        // g's outputs: h's inputs
        let ht = ds[2].source_type();
        gen::with_target_type(t, &mut g, &ht);
        ds[1] = g;
    }
    ctx.set_dump(format!("f = {}\ng = {}\nh = {}", ds[0].pretty(), ds[1].pretty(), ds[2].pretty()));
    let (f, g, h) = (sv::to_strict(&ds[0]), sv::to_strict(&ds[1]), sv::to_strict(&ds[2]));
    let fg = comp(ctx, &f, &g, "f;g")?;
    let gh = comp(ctx, &g, &h, "g;h")?;
    let l = comp(ctx, &fg, &h, "(f;g);h")?;
    let r = comp(ctx, &f, &gh, "f;(g;h)")?;
    require_iso(ctx, "associativity", &m(ctx, &l, "(f;g);h")?, &m(ctx, &r, "f;(g;h)")?, "(f;g);h vs f;(g;h)")?;
    // types of intermediates
    ctx.sub("composite-types");
    ensure!(ctx, sv::unty(&fg.source()) == ds[0].source_type() && sv::unty(&fg.target()) == ds[1].target_type(), "composite-types", "type of f;g is wrong");
    // identities
    let ida = sv::SOH::identity(sv::ty(&ds[0].source_type()));
    let idb = sv::SOH::identity(sv::ty(&ds[0].target_type()));
    let l = comp(ctx, &ida, &f, "id;f")?;
    let r = comp(ctx, &f, &idb, "f;id")?;
    require_iso(ctx, "left-unit", &m(ctx, &l, "id;f")?, &ds[0], "id;f vs f")?;
    require_iso(ctx, "right-unit", &m(ctx, &r, "f;id")?, &ds[0], "f;id vs f")?;
    // the same laws through the lax representation: composites keep their gluing deferred, so the
    // right-nested bracketing hands an operand with pending unifications to the next composition
    {
        use crate::lax_ops::*;
        use open_hypergraphs::category::Arrow;
        let (lf, lg, lh) = (to_lax_d(&ds[0]), to_lax_d(&ds[1]), to_lax_d(&ds[2]));
        let dump = ctx.dump.clone();
        let c = move |a: &LOH, b: &LOH, what: &str| {
            Arrow::compose(a, b).ok_or_else(|| Violation { sub_check: "law-composable".into(), message: format!("lax {what}: composition undefined although the types match"), dump: dump.clone() })
        };
        let left = c(&c(&lf, &lg, "f;g")?, &lh, "(f;g);h")?;
        let right = c(&lf, &c(&lg, &lh, "g;h")?, "f;(g;h)")?;
        let lm = m(ctx, &left.to_strict(), "lax (f;g);h")?;
        let rm = m(ctx, &right.to_strict(), "lax f;(g;h)")?;
        require_iso(ctx, "lax-associativity", &lm, &rm, "lax (f;g);h vs f;(g;h)")?;
        let strict_fgh = comp(ctx, &f, &gh, "f;(g;h)")?;
        require_iso(ctx, "lax-associativity", &rm, &m(ctx, &strict_fgh, "f;(g;h)")?, "lax f;(g;h) vs the strict composite")?;
        let idl = LOH::identity(crate::labels::obs(&ds[1].source_type()));
        let u = c(&idl, &c(&lg, &lh, "g;h")?, "id;(g;h)")?;
        require_iso(ctx, "lax-left-unit", &m(ctx, &u.to_strict(), "lax id;(g;h)")?, &m(ctx, &gh, "g;h")?, "lax id;(g;h) vs g;h")?;
        // interchange with right-nested (pending) factors
        let l = c(&lf, &lg, "f;g")?.tensor(&c(&lg, &lh, "g;h")?);
        let r2 = c(&lf.tensor(&lg), &lg.tensor(&lh), "(f|g);(g|h)")?;
        require_iso(ctx, "lax-interchange", &m(ctx, &l.to_strict(), "lax (f;g)|(g;h)")?, &m(ctx, &r2.clone().to_strict(), "lax (f|g);(g|h)")?, "lax interchange")?;
        // the same with the in-place tensor: the receiver already carries the gluing of f;g
        let mut acc = c(&lf, &lg, "f;g")?;
        acc.tensor_assign(c(&lg, &lh, "g;h")?);
        require_iso(ctx, "lax-interchange", &m(ctx, &acc.to_strict(), "lax (f;g) tensor_assign (g;h)")?, &m(ctx, &r2.to_strict(), "lax (f|g);(g|h)")?, "lax interchange through tensor_assign")?;
    }
    if ds.iter().all(interesting) {
        ctx.nontrivial(&ds);
        if ctx.want_sample {
            ctx.sample = Some(format!("assoc/unit: {}", ctx.dump.replace('\n', " ; ")));
        }
    }
    Ok(())
}

fn interchange(t: &mut Tape, ctx: &mut Ctx, al: gen::Alpha) -> CheckResult {
    let sz = ctx.sizes;
    ctx.class("group:interchange");
    let p1 = gen::composable(t, &sz, al, 2, ctx);
    let p2 = gen::composable(t, &sz, al, 2, ctx);
    ctx.set_dump(format!("f1 = {}\ng1 = {}\nf2 = {}\ng2 = {}", p1[0].pretty(), p1[1].pretty(), p2[0].pretty(), p2[1].pretty()));
    let (f1, g1, f2, g2) = (sv::to_strict(&p1[0]), sv::to_strict(&p1[1]), sv::to_strict(&p2[0]), sv::to_strict(&p2[1]));
    let l = &comp(ctx, &f1, &g1, "f1;g1")? | &comp(ctx, &f2, &g2, "f2;g2")?;
    let r = comp(ctx, &(&f1 | &f2), &(&g1 | &g2), "(f1|f2);(g1|g2)")?;
    require_iso(ctx, "interchange", &m(ctx, &l, "(f1;g1)|(f2;g2)")?, &m(ctx, &r, "(f1|f2);(g1|g2)")?, "interchange law")?;
    if p1.iter().chain(p2.iter()).all(interesting) {
        ctx.nontrivial(&(&p1, &p2));
        if ctx.want_sample {
            ctx.sample = Some(format!("interchange: {}", ctx.dump.replace('\n', " ; ")));
        }
    }
    Ok(())
}

fn obj_list(t: &mut Tape, al: gen::Alpha, max: usize) -> Vec<u32> {
    (0..t.range(0, max)).map(|_| t.choice(al.nl) as u32).collect()
}

fn symmetry(t: &mut Tape, ctx: &mut Ctx, al: gen::Alpha) -> CheckResult {
    let sz = ctx.sizes;
    ctx.class("group:symmetry");
    let f = gen::diagram(t, &sz, al, ctx);
    let g = gen::diagram(t, &sz, al, ctx);
    let (a, b, c) = (obj_list(t, al, 3), obj_list(t, al, 3), obj_list(t, al, 3));
    ctx.set_dump(format!("f = {}\ng = {}\nA = {:?} B = {:?} C = {:?}", f.pretty(), g.pretty(), a, b, c));
    let (sf_, sg) = (sv::to_strict(&f), sv::to_strict(&g));
    let tw = |x: &[u32], y: &[u32]| sv::SOH::twist(sv::ty(x), sv::ty(y));
    let id = |x: &[u32]| sv::SOH::identity(sv::ty(x));
    let cat = |x: &[u32], y: &[u32]| -> Vec<u32> { x.iter().chain(y.iter()).copied().collect() };

    // shape and type of the symmetry
    ctx.sub("twist-shape");
    let tab = m(ctx, &tw(&a, &b), "twist(A,B)")?;
    ensure!(ctx, tab.source_type() == cat(&a, &b) && tab.target_type() == cat(&b, &a), "twist-shape", "twist(A,B) has type {:?} -> {:?}", tab.source_type(), tab.target_type());
    require_iso(ctx, "twist-shape", &tab, &Diagram::twist(&a, &b), "twist(A,B) vs the block transposition")?;

    // the lax representation's symmetry, strictified, is the same block transposition
    {
        use crate::labels::obs;
        use crate::lax_ops::LOH;
        let lt = <LOH as SymmetricMonoidal>::twist(obs(&a), obs(&b));
        let lt = wf(ctx, "law-operand-wf", sv::from_strict(&lt.to_strict()), "lax twist(A,B)")?;
        require_iso(ctx, "twist-shape-lax", &lt, &Diagram::twist(&a, &b), "lax twist(A,B) vs the block transposition")?;
    }
    // naturality in both arguments: sigma_{A1,B1};(g|f) = (f|g);sigma_{A2,B2} for f:A1->A2, g:B1->B2
    let (a1, a2, b1, b2) = (f.source_type(), f.target_type(), g.source_type(), g.target_type());
    let l = comp(ctx, &tw(&a1, &b1), &(&sg | &sf_), "sigma;(g|f)")?;
    let r = comp(ctx, &(&sf_ | &sg), &tw(&a2, &b2), "(f|g);sigma")?;
    require_iso(ctx, "twist-naturality", &m(ctx, &l, "sigma;(g|f)")?, &m(ctx, &r, "(f|g);sigma")?, "naturality of the symmetry")?;
    // one argument an identity
    let l = comp(ctx, &tw(&a1, &b), &(&id(&b) | &sf_), "sigma;(id|f)")?;
    let r = comp(ctx, &(&sf_ | &id(&b)), &tw(&a2, &b), "(f|id);sigma")?;
    require_iso(ctx, "twist-naturality-1", &m(ctx, &l, "sigma;(id|f)")?, &m(ctx, &r, "(f|id);sigma")?, "naturality in the first argument")?;
    let l = comp(ctx, &tw(&a, &b1), &(&sg | &id(&a)), "sigma;(g|id)")?;
    let r = comp(ctx, &(&id(&a) | &sg), &tw(&a, &b2), "(id|g);sigma")?;
    require_iso(ctx, "twist-naturality-2", &m(ctx, &l, "sigma;(g|id)")?, &m(ctx, &r, "(id|g);sigma")?, "naturality in the second argument")?;

    // self-inverse
    let l = comp(ctx, &tw(&a, &b), &tw(&b, &a), "sigma_{A,B};sigma_{B,A}")?;
    require_iso(ctx, "twist-involutive", &m(ctx, &l, "sigma;sigma")?, &Diagram::identity(&cat(&a, &b)), "sigma_{A,B};sigma_{B,A} vs id")?;

    // hexagons
    let bc = cat(&b, &c);
    let l = tw(&a, &bc);
    let r = comp(ctx, &(&tw(&a, &b) | &id(&c)), &(&id(&b) | &tw(&a, &c)), "hexagon rhs")?;
    require_iso(ctx, "hexagon-1", &m(ctx, &l, "sigma_{A,B.C}")?, &m(ctx, &r, "(sigma|id);(id|sigma)")?, "first hexagon")?;
    let ab = cat(&a, &b);
    let l = tw(&ab, &c);
    let r = comp(ctx, &(&id(&a) | &tw(&b, &c)), &(&tw(&a, &c) | &id(&b)), "hexagon-2 rhs")?;
    require_iso(ctx, "hexagon-2", &m(ctx, &l, "sigma_{A.B,C}")?, &m(ctx, &r, "(id|sigma);(sigma|id)")?, "second hexagon")?;

    // the same two laws in the lax representation, written with its operator sugar (`|`, `>>`)
    {
        use crate::labels::obs;
        use crate::lax_ops::{to_lax_d, LOH};
        let (lf, lg) = (to_lax_d(&f), to_lax_d(&g));
        let ltw = |x: &[u32], y: &[u32]| <LOH as SymmetricMonoidal>::twist(obs(x), obs(y));
        let lid = |x: &[u32]| LOH::identity(obs(x));
        let lc = |ctx: &mut Ctx, x: &LOH, y: &LOH, what: &str| -> Result<Diagram, Violation> {
            let r = (x >> y).ok_or_else(|| ctx.fail("law-composable", format!("lax {what}: composition undefined although the types match")))?;
            m(ctx, &r.to_strict(), what)
        };
        let l = lc(ctx, &ltw(&a1, &b1), &(&lg | &lf), "lax sigma;(g|f)")?;
        let r = lc(ctx, &(&lf | &lg), &ltw(&a2, &b2), "lax (f|g);sigma")?;
        require_iso(ctx, "lax-twist-naturality", &l, &r, "naturality of the lax symmetry (operator sugar)")?;
        let r = lc(ctx, &(&ltw(&a, &b) | &lid(&c)), &(&lid(&b) | &ltw(&a, &c)), "lax hexagon rhs")?;
        let bc = cat(&b, &c);
        let l = m(ctx, &ltw(&a, &bc).to_strict(), "lax sigma_{A,B.C}")?;
        require_iso(ctx, "lax-hexagon-1", &l, &r, "first hexagon, lax")?;
    }

    // negative control: the oracle must tell apart diagrams with equal types and label multisets
    if !a.is_empty() {
        let aa = cat(&a, &a);
        // built on the model, so that the control validates the oracle and not the library
        let s = Diagram::twist(&a, &a);
        if iso(&s, &Diagram::identity(&aa)).is_iso() {
            panic!("harness: negative control failed: sigma_{{A,A}} reported isomorphic to id for A = {:?}", a);
        }
        ctx.sub("negative-control-twist");
    }
    // positive control: a diagram is isomorphic to every renumbering of itself
    {
        let np = t.permutation(f.nodes.len());
        let ep = t.permutation(f.edges.len());
        let r = f.renumber(&np, &ep);
        match iso(&f, &r) {
            IsoResult::NotIso(_) => panic!("harness: iso rejected a renumbering of one diagram: {} vs {}", f.pretty(), r.pretty()),
            IsoResult::Inconclusive => ctx.inconclusive = true,
            IsoResult::Iso => {}
        }
        ctx.sub("positive-control-renumbering");
    }
    if let Some(mutant) = point_mutation(t, &f) {
        if f.nodes.len() <= 6 && f.edges.len() <= 5 {
            let truth = iso_brute(&f, &mutant);
            match iso(&f, &mutant) {
                IsoResult::Iso if !truth => panic!("harness: iso accepted a non-isomorphic point mutation: {} vs {}", f.pretty(), mutant.pretty()),
                IsoResult::NotIso(_) if truth => panic!("harness: iso rejected an isomorphic pair: {} vs {}", f.pretty(), mutant.pretty()),
                _ => {}
            }
            ctx.sub("negative-control-mutation");
            ctx.class_if(!truth, "control:mutant-not-iso");
        }
    }

    if interesting(&f) && interesting(&g) && !a.is_empty() && !b.is_empty() && a != b {
        ctx.nontrivial(&(&f, &g, &a, &b, &c));
        if ctx.want_sample {
            ctx.sample = Some(format!("symmetry: {}", ctx.dump.replace('\n', " ; ")));
        }
    }
    Ok(())
}

/// a single random point mutation that keeps types and label multisets
pub fn point_mutation(t: &mut Tape, d: &Diagram) -> Option<Diagram> {
    let mut m = d.clone();
    match t.choice(3) {
        0 => {
            // swap two entries of one incidence list
            let cands: Vec<usize> = (0..d.edges.len()).filter(|&i| d.edges[i].src.len() + d.edges[i].tgt.len() >= 2).collect();
            if cands.is_empty() {
                return None;
            }
            let e = &mut m.edges[*t.pick(&cands)];
            if e.src.len() >= 2 {
                let i = t.choice(e.src.len() - 1);
                e.src.swap(i, i + 1);
            } else if e.tgt.len() >= 2 {
                let i = t.choice(e.tgt.len() - 1);
                e.tgt.swap(i, i + 1);
            } else {
                std::mem::swap(&mut e.src, &mut e.tgt);
            }
        }
        1 => {
            // retarget one incidence entry to another node of the same label
            let cands: Vec<usize> = (0..d.edges.len()).filter(|&i| !d.edges[i].src.is_empty()).collect();
            if cands.is_empty() {
                return None;
            }
            let ei = *t.pick(&cands);
            let p = t.choice(m.edges[ei].src.len());
            let old = m.edges[ei].src[p];
            let same: Vec<usize> = (0..d.nodes.len()).filter(|&v| v != old && d.nodes[v] == d.nodes[old]).collect();
            if same.is_empty() {
                return None;
            }
            m.edges[ei].src[p] = *t.pick(&same);
        }
        _ => {
            // move one interface leg to another node of the same label
            if d.s.is_empty() {
                return None;
            }
            let p = t.choice(d.s.len());
            let old = d.s[p];
            let same: Vec<usize> = (0..d.nodes.len()).filter(|&v| v != old && d.nodes[v] == d.nodes[old]).collect();
            if same.is_empty() {
                return None;
            }
            m.s[p] = *t.pick(&same);
        }
    }
    Some(m)
}
