//! C17 — acyclicity, monogamy and degree queries decide their definitions, totally
use crate::engine::*;
use crate::ensure;
use crate::gen::{self, OpSpec};
use crate::kinds::vec_inst as sv;
use crate::model::{Diagram, Edge};
use crate::tape::Tape;

pub static PROP: Prop = Prop {
    id: "C17",
    title: "Acyclicity, monogamy and degree queries decide their definitions, totally",
    check,
    max_tape: (140, 260),
    cases: (200_000, 4_000_000),
    both_profiles: true,
    rule: "generated diagrams (60%: arbitrary, with isolated / dangling nodes, repeated incidences, parallel bundles; 40%: monogamous acyclic circuits built wire by wire, half of them with one point mutation) so that `true` answers are frequent; each predicate compared with its definition on the plain model (DFS, counting); half of the cases run in a plain release build; non-trivial = >= 1 hyperedge and >= 3 nodes; distinct = hash of the diagram",
    assumptions: &["monogamy as documented: both interface maps injective and, per node, in-degree + (1 if input) == 1 and out-degree + (1 if output) == 1"],
    fixed: Some(fixed),
    scale: Some(super::scale::c17),
};

pub const SIG: &[OpSpec] = &[
    OpSpec { label: 0, ins: 2, outs: 1 },
    OpSpec { label: 1, ins: 1, outs: 1 },
    OpSpec { label: 2, ins: 1, outs: 2 },
    OpSpec { label: 3, ins: 0, outs: 1 },
    OpSpec { label: 4, ins: 1, outs: 0 },
];

pub fn decide(ctx: &mut Ctx, d: &Diagram) -> CheckResult {
    let n = d.nodes.len();
    ctx.sub("is-acyclic");
    let want = d.is_acyclic_nodes();
    let got = sv::op_is_acyclic(d);
    ensure!(ctx, got == want, "is-acyclic", "OpenHypergraph::is_acyclic = {got} but a node reaches itself = {}", !want);
    let got_h = sv::op_is_acyclic_h(d);
    ensure!(ctx, got_h == want, "is-acyclic", "Hypergraph::is_acyclic = {got_h} want {want}");
    ctx.class_if(want, "acyclic");
    ctx.sub("is-monogamous");
    let wantm = d.is_monogamous();
    let gotm = sv::op_is_monogamous(d);
    ensure!(ctx, gotm == wantm, "is-monogamous", "is_monogamous = {gotm} but the definition gives {wantm}");
    ctx.class_if(wantm, "monogamous");
    ctx.sub("degrees");
    let (ind, outd) = sv::op_degrees(d);
    for v in 0..n {
        ensure!(ctx, ind[v] == d.in_degree(v), "degrees", "in_degree({v}) = {} want {}", ind[v], d.in_degree(v));
        ensure!(ctx, outd[v] == d.out_degree(v), "degrees", "out_degree({v}) = {} want {}", outd[v], d.out_degree(v));
    }
    // out-of-range node index: documented panic
    let h = sv::to_strict_h(d);
    let r1 = lib(|| h.in_degree(n));
    let r2 = lib(|| h.out_degree(n));
    ensure!(ctx, r1.is_err() && r2.is_err(), "degrees", "degree query for node {n} of {n} did not panic");
    Ok(())
}

fn check(t: &mut Tape, ctx: &mut Ctx) -> CheckResult {
    let sz = ctx.sizes;
    let d = match t.weighted(&[6, 2, 2]) {
        0 => {
            let al = gen::alpha(t, &sz);
            gen::diagram(t, &sz, al, ctx)
        }
        k => {
            let nin = t.range(0, 3);
            let nops = t.range(0, sz.edges + 2);
            let c = gen::monogamous_circuit(t, SIG, nin, nops);
            ctx.class("gen:circuit");
            if k == 2 {
                ctx.class("gen:circuit-mutated");
                mutate(t, &c)
            } else {
                c
            }
        }
    };
    gen::classify(&d, ctx);
    ctx.set_dump(d.pretty());
    // classes named by the property
    let n = d.nodes.len();
    let mut maxmult = 0;
    for v in 0..n {
        for w in 0..n {
            let c: usize = d.edges.iter().map(|e| e.src.iter().filter(|&&x| x == v).count() * e.tgt.iter().filter(|&&x| x == w).count()).sum();
            maxmult = maxmult.max(c);
        }
    }
    ctx.class_if(maxmult > n, "multiplicity>nodes");
    decide(ctx, &d)?;
    if !d.edges.is_empty() && n >= 3 {
        ctx.nontrivial(&d);
        if ctx.want_sample {
            ctx.sample = Some(format!("{} => acyclic {} monogamous {}", d.pretty(), d.is_acyclic_nodes(), d.is_monogamous()));
        }
    }
    Ok(())
}

fn mutate(t: &mut Tape, c: &Diagram) -> Diagram {
    let mut d = c.clone();
    let n = d.nodes.len();
    match t.choice(6) {
        0 => d.nodes.push(0), // isolated node
        1 if n > 0 => {
            // an extra interface leg
            let v = t.choice(n);
            if t.chance(1, 2) {
                d.s.push(v)
            } else {
                d.t.push(v)
            }
        }
        2 if !d.edges.is_empty() && n > 0 => {
            // retarget one incidence
            let e = t.choice(d.edges.len());
            let v = t.choice(n);
            let ed = &mut d.edges[e];
            if !ed.src.is_empty() && t.chance(1, 2) {
                let p = t.choice(ed.src.len());
                ed.src[p] = v;
            } else if !ed.tgt.is_empty() {
                let p = t.choice(ed.tgt.len());
                ed.tgt[p] = v;
            }
        }
        3 if !d.s.is_empty() => {
            let p = t.choice(d.s.len());
            d.s.remove(p);
        }
        4 if !d.t.is_empty() => {
            let p = t.choice(d.t.len());
            d.t.remove(p);
        }
        _ if n > 0 => {
            // an extra edge (possibly closing a cycle)
            let a = t.choice(n);
            let b = t.choice(n);
            d.edges.push(Edge { label: 1, src: vec![a], tgt: vec![b] });
        }
        _ => {}
    }
    d
}

/// hand-written regression cases (D1, D2 and a compensating degree pattern)
fn fixed(ctx: &mut Ctx) -> CheckResult {
    let cases = vec![
        // D2: one isolated node, no edges, empty interfaces
        Diagram { nodes: vec![0], edges: vec![], s: vec![], t: vec![] },
        // D1: one edge [a,a,a] -> [b]
        Diagram { nodes: vec![0, 0], edges: vec![Edge { label: 0, src: vec![0, 0, 0], tgt: vec![1] }], s: vec![], t: vec![] },
        // excess at one node compensated by a deficit at another
        Diagram { nodes: vec![0, 0, 0], edges: vec![Edge { label: 0, src: vec![0], tgt: vec![1, 1] }], s: vec![0], t: vec![1, 2] },
        // dangling node that is only an output
        Diagram { nodes: vec![0, 0], edges: vec![Edge { label: 0, src: vec![0], tgt: vec![] }], s: vec![0], t: vec![1] },
        // identity on two wires is monogamous
        Diagram::identity(&[0, 1]),
    ];
    for d in cases {
        ctx.set_dump(format!("fixed: {}", d.pretty()));
        decide(ctx, &d)?;
    }
    Ok(())
}
