//! C13 — native lax functor path agrees with the strict path; the witness is correct
use super::common::*;
use crate::engine::*;
use crate::ensure;
use crate::functor_model::{substitute, OpKey, TableFunctor};
use crate::gen;
use crate::kinds::vec_inst as sv;
use crate::lax_ops::*;
use crate::model::Lax;
use crate::tape::Tape;
use open_hypergraphs::lax::functor::{map_arrow_witness, try_define_map_arrow, Functor};
use std::collections::BTreeMap;

pub static PROP: Prop = Prop {
    id: "C13",
    title: "Native lax functor path agrees with the strict path; witness is correct",
    check,
    max_tape: (420, 760),
    cases: (80_000, 800_000),
    both_profiles: false,
    rule: "a generated quotient-free lax diagram and a lax functor from a functor table (object images of length 0..3; operation images arbitrary small diagrams, 30% of the functors with label-consistent pending pairs inside the images); natively computed image, quotiented, compared up to isomorphism with the strict-path image and with substitution on the plain model; witness checked against its definition; 15% of the cases carry a pending pair in the input for the refusal clause; non-trivial = >= 1 hyperedge and some object image of length != 1; distinct = hash of (diagram, functor table, pending pairs)",
    assumptions: &["operation images with label-conflicting pending pairs are a caller error (documented 'may panic') and are not generated"],
    fixed: None,
    scale: None,
};

fn check(t: &mut Tape, ctx: &mut Ctx) -> CheckResult {
    ctx.cap_medium(260);
    let sz = ctx.sizes;
    let al = gen::alpha(t, &sz);
    let d = gen::diagram(t, &sz, al, ctx);
    gen::classify(&d, ctx);
    let table = super::c12::table_for(t, ctx, al, &[&d]);
    // pending pairs inside images (label-consistent)
    let with_pending = t.weighted(&[7, 3]) == 1;
    let mut pend: BTreeMap<OpKey, Vec<(usize, usize)>> = BTreeMap::new();
    let mut strictified = TableFunctor { obj: table.obj.clone(), ops: BTreeMap::new() };
    for (k, img) in &table.ops {
        let q = if with_pending { gen::pending_pairs(t, img, 2, true) } else { vec![] };
        let s = Lax { d: img.clone(), q: q.clone() }.strictify().expect("consistent");
        strictified.ops.insert(k.clone(), s);
        pend.insert(k.clone(), q);
    }
    ctx.class_if(with_pending && pend.values().any(|q| !q.is_empty()), "images-with-pending-pairs");
    let refusal = t.weighted(&[17, 3]) == 1 && !d.nodes.is_empty();
    let functor = LFunctorPending(table.clone(), pend.clone());
    ctx.set_dump(format!("d = {}\nF = {}\npending in images = {:?}", d.pretty(), table.pretty(), pend));

    if refusal {
        ctx.class("group:refusal");
        let n = d.nodes.len();
        let a = t.choice(n);
        let cands: Vec<usize> = (0..n).filter(|&v| d.nodes[v] == d.nodes[a]).collect();
        let b = *t.pick(&cands);
        let l = to_lax(&Lax { d: d.clone(), q: vec![(a, b)] });
        ctx.set_dump(format!("{}\ninput pending pair ({a},{b})", ctx.dump));
        ctx.sub("native-path-refuses-pending");
        ensure!(ctx, try_define_map_arrow(&functor, &l).is_none(), "native-path-refuses-pending", "try_define_map_arrow returned a diagram for an input with a pending unification");
        ensure!(ctx, map_arrow_witness(&functor, &l).is_none(), "native-path-refuses-pending", "map_arrow_witness returned a result for an input with a pending unification");
        // relabelling nodes or hyperedges (here: with the identity) glues nothing: still refused
        {
            let l3 = l.clone().map_nodes(|o| o).map_edges(|a| a);
            ensure!(ctx, try_define_map_arrow(&functor, &l3).is_none() && map_arrow_witness(&functor, &l3).is_none(), "native-path-refuses-pending", "after map_nodes / map_edges the native path accepts a diagram that still has its pending unification");
        }
        // a diagram whose pending pair joins two differently labelled nodes still has a pending
        // unification after a quotient attempt has failed on it: the refusal must not depend on history
        let others: Vec<usize> = (0..n).filter(|&v| d.nodes[v] != d.nodes[a]).collect();
        if !others.is_empty() {
            let c = *t.pick(&others);
            let mut l2 = to_lax(&Lax { d: d.clone(), q: vec![(a, c)] });
            ctx.set_dump(format!("{}
second input: pending pair ({a},{c}) with different labels, after a failed quotient()", ctx.dump));
            ensure!(ctx, l2.quotient().is_err(), "native-path-refuses-pending", "quotient succeeded on a pair of differently labelled nodes");
            ensure!(ctx, try_define_map_arrow(&functor, &l2).is_none() && map_arrow_witness(&functor, &l2).is_none(), "native-path-refuses-pending", "after a failed quotient the native path accepts a diagram that still has its pending unification");
            ctx.class("refusal-after-failed-quotient");
        }
        ctx.nontrivial(&(&d, a, b, "refusal"));
        return Ok(());
    }

    let l = to_lax_d(&d);
    ctx.sub("native-path-defined");
    let Some(native) = try_define_map_arrow(&functor, &l) else {
        return Err(ctx.fail("native-path-defined", "try_define_map_arrow returned None on a quotient-free diagram"));
    };
    wf(ctx, "native-wf", from_lax(&native), "native image")?;
    let mut nq = native.clone();
    let _q0 = nq.quotient().map_err(|_| ctx.fail("native-path-defined", "the native image cannot be quotiented (label conflict)"))?;
    let got = wf(ctx, "native-wf", from_lax(&nq), "quotiented native image")?.d;
    let want = substitute(&d, &strictified);
    require_iso(ctx, "native-is-substitution", &got, &want, "quotiented native image vs substitution")?;
    // the strict path
    let via_strict = functor.map_arrow(&l);
    let via_strict = wf(ctx, "native-wf", from_lax(&via_strict), "strict-path image")?.strictify().map_err(|e| ctx.fail("native-wf", e))?;
    require_iso(ctx, "native-agrees-with-strict-path", &got, &via_strict, "quotiented native image vs strict-path image")?;

    // witness
    ctx.sub("witness");
    let Some((g, wit)) = map_arrow_witness(&functor, &l) else {
        return Err(ctx.fail("witness", "map_arrow_witness returned None on a quotient-free diagram"));
    };
    // the diagram returned with the witness is itself a correct image
    let mut gq = g.clone();
    let q = gq.quotient().map_err(|_| ctx.fail("witness", "the diagram returned with the witness cannot be quotiented"))?;
    let gd = wf(ctx, "native-wf", from_lax(&gq), "quotiented witness diagram")?.d;
    require_iso(ctx, "witness-diagram-is-substitution", &gd, &want, "diagram returned by map_arrow_witness vs substitution")?;
    let nq = gq;
    let (segs, tgt) = wf(ctx, "witness", sv::decode_icf(&wit), "witness")?;
    ensure!(ctx, tgt == g.hypergraph.nodes.len(), "witness", "witness codomain {} but the image has {} nodes", tgt, g.hypergraph.nodes.len());
    ensure!(ctx, segs.len() == d.nodes.len(), "witness", "witness has {} segments for {} input nodes", segs.len(), d.nodes.len());
    let mut seen = std::collections::BTreeSet::new();
    for (i, seg) in segs.iter().enumerate() {
        let fl = table.object(d.nodes[i]);
        ensure!(ctx, seg.len() == fl.len(), "witness", "input node {i} (label {}) is related to {} output nodes, want |F(label)| = {}", d.nodes[i], seg.len(), fl.len());
        for (k, &v) in seg.iter().enumerate() {
            ensure!(ctx, g.hypergraph.nodes[v].0 == fl[k], "witness", "output node {v} related to input node {i} position {k} has label {} want {}", g.hypergraph.nodes[v].0, fl[k]);
            ensure!(ctx, seen.insert(v), "witness", "output node {v} is related to two input positions");
        }
    }
    // pushing the interfaces through the witness and the quotient gives the output interfaces
    let push = |iface: &[usize]| -> Vec<usize> { iface.iter().flat_map(|&i| segs[i].iter().map(|&v| q.table.0[v])).collect() };
    ensure!(ctx, push(&d.s) == unids(&nq.sources), "witness-interfaces", "sources through witness and quotient {:?} but the quotiented image has {:?}", push(&d.s), unids(&nq.sources));
    ensure!(ctx, push(&d.t) == unids(&nq.targets), "witness-interfaces", "targets through witness and quotient {:?} but the quotiented image has {:?}", push(&d.t), unids(&nq.targets));

    let sizes: Vec<usize> = d.nodes.iter().map(|&l| table.object(l).len()).collect();
    ctx.class_if(!sizes.is_empty() && sizes.iter().sum::<usize>() == sizes.len() && sizes.iter().any(|&s| s != 1), "balanced-non-unit-sizes");
    if !d.edges.is_empty() && sizes.iter().any(|&s| s != 1) {
        ctx.nontrivial(&(&d, &table.obj, &table.ops, &pend));
        if ctx.want_sample {
            ctx.sample = Some(format!("{} => {}", ctx.dump.replace('\n', " ; "), got.pretty()));
        }
    }
    Ok(())
}
