//! helpers shared by the property checks
use crate::engine::{Ctx, Violation};
use crate::iso::{iso, IsoResult};
use crate::model::Diagram;

/// require `got ≅ want`; an exhausted search budget marks the case inconclusive
pub fn require_iso(
    ctx: &mut Ctx,
    sub: &'static str,
    got: &Diagram,
    want: &Diagram,
    what: &str,
) -> Result<(), Violation> {
    ctx.sub(sub);
    match iso(got, want) {
        IsoResult::Iso => Ok(()),
        IsoResult::Inconclusive => {
            ctx.inconclusive = true;
            Ok(())
        }
        IsoResult::NotIso(why) => Err(ctx.fail(
            sub,
            format!(
                "{what}: not isomorphic ({why})\n  got : {}\n  want: {}",
                got.pretty(),
                want.pretty()
            ),
        )),
    }
}

/// library result that must be well-formed
pub fn wf<T>(ctx: &Ctx, sub: &'static str, r: Result<T, String>, what: &str) -> Result<T, Violation> {
    r.map_err(|e| ctx.fail(sub, format!("{what}: ill-formed result: {e}")))
}
