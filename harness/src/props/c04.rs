//! C04 — dagger and spiders give the hypergraph-category (Frobenius) structure
use super::common::*;
use crate::engine::*;
use crate::ensure;
use crate::gen;
use crate::kinds::vec_inst as sv;
use crate::labels::obs;
use crate::lax_ops::*;
use crate::model::{Diagram, Lax};
use crate::tape::Tape;
use open_hypergraphs::category::{Spider, SymmetricMonoidal};

pub static PROP: Prop = Prop {
    id: "C04",
    title: "Dagger and spiders give the hypergraph-category (Frobenius) structure",
    check,
    max_tape: (300, 520),
    cases: (150_000, 1_500_000),
    both_profiles: false,
    rule: "one group per case: (a) dagger laws on generated diagrams and composable pairs, strict and lax; (b) spider fusion on pairs of generated labelled cospans with matching boundary types (non-injective / non-surjective legs, empty node sets), plus identity/symmetry/half-spider as spiders; (c) spider construction on raw legs whose codomain is |w|-1, |w| or |w|+1; non-trivial = (a) s != t and >= 1 hyperedge, (b) at least one merge and at least one node missed by a leg, (c) a rejected construction; distinct = hash of the generated data",
    assumptions: &["cospan composition on the plain model (union-find gluing) is the specification of spider fusion"],
    fixed: None,
    scale: None,
};

fn check(t: &mut Tape, ctx: &mut Ctx) -> CheckResult {
    let sz = ctx.sizes;
    let al = gen::alpha(t, &sz);
    match t.weighted(&[3, 3, 2]) {
        0 => dagger(t, ctx, al),
        1 => fusion(t, ctx, al),
        _ => rejection(t, ctx, al),
    }
}

fn dagger(t: &mut Tape, ctx: &mut Ctx, al: gen::Alpha) -> CheckResult {
    let sz = ctx.sizes;
    ctx.class("group:dagger");
    let ds = gen::composable(t, &sz, al, 2, ctx);
    let (f, g) = (&ds[0], &ds[1]);
    let q = gen::pending_pairs(t, f, sz.nodes, false);
    ctx.set_dump(format!("f = {}\ng = {}\npending(f) = {:?}", f.pretty(), g.pretty(), q));
    let (sf_, sg) = (sv::to_strict(f), sv::to_strict(g));
    ctx.sub("dagger-swaps");
    let fd = wf(ctx, "dagger-wf", sv::from_strict(&sf_.dagger()), "f†")?;
    ensure!(ctx, fd == f.dagger(), "dagger-swaps", "f† is not f with swapped interfaces\n  got : {}\n  want: {}", fd.pretty(), f.dagger().pretty());
    let fdd = wf(ctx, "dagger-wf", sv::from_strict(&sf_.dagger().dagger()), "f††")?;
    ensure!(ctx, &fdd == f, "dagger-involution", "f†† != f: {}", fdd.pretty());
    // contravariance
    let fg = (&sf_ >> &sg).ok_or_else(|| ctx.fail("dagger-contravariant", "f;g undefined"))?;
    let l = wf(ctx, "dagger-wf", sv::from_strict(&fg.dagger()), "(f;g)†")?;
    let r = (&sg.dagger() >> &sf_.dagger()).ok_or_else(|| ctx.fail("dagger-contravariant", "g†;f† undefined although types match"))?;
    let r = wf(ctx, "dagger-wf", sv::from_strict(&r), "g†;f†")?;
    require_iso(ctx, "dagger-contravariant", &l, &r, "(f;g)† vs g†;f†")?;
    // distributes over tensor (exactly)
    ctx.sub("dagger-tensor");
    let l = wf(ctx, "dagger-wf", sv::from_strict(&(&sf_ | &sg).dagger()), "(f|g)†")?;
    let r = wf(ctx, "dagger-wf", sv::from_strict(&(&sf_.dagger() | &sg.dagger())), "f†|g†")?;
    ensure!(ctx, l == r, "dagger-tensor", "(f|g)† != f†|g†\n  lhs: {}\n  rhs: {}", l.pretty(), r.pretty());
    // lax dagger: same hypergraph (incl. pending pairs), interfaces swapped
    ctx.sub("lax-dagger");
    let lf = Lax { d: f.clone(), q };
    let got = wf(ctx, "lax-dagger", from_lax(&to_lax(&lf).dagger()), "lax f†")?;
    let want = Lax { d: f.dagger(), q: lf.q.clone() };
    ensure!(ctx, got == want, "lax-dagger", "lax dagger\n  got : {}\n  want: {}", got.pretty(), want.pretty());
    // lax dagger distributes over the lax tensor (all three spellings of the tensor), exactly
    {
        use open_hypergraphs::category::Monoidal;
        let (a, b) = (to_lax(&lf), to_lax_d(g));
        let want = Lax { d: f.juxtapose(g).dagger(), q: lf.q.clone() };
        for (name, tensor) in [("tensor", a.tensor(&b)), ("|", &a | &b), ("Monoidal::tensor", Monoidal::tensor(&a, &b))] {
            let l = wf(ctx, "lax-dagger", from_lax(&tensor.dagger()), "lax (f|g)†")?;
            ensure!(ctx, l == want, "lax-dagger-tensor", "lax (f {name} g)† is not the juxtaposition with swapped interfaces\n  got : {}\n  want: {}", l.pretty(), want.pretty());
        }
        let r = wf(ctx, "lax-dagger", from_lax(&a.dagger().tensor(&b.dagger())), "lax f†|g†")?;
        ensure!(ctx, r == want, "lax-dagger-tensor", "lax f†|g† differs from (f|g)†\n  got : {}\n  want: {}", r.pretty(), want.pretty());
    }
    // lax contravariance with operands that still carry pending unifications
    ctx.sub("lax-dagger-contravariant");
    {
        let qg = gen::pending_pairs(t, g, 3, true);
        let qf = gen::pending_pairs(t, f, 3, true);
        let (lf2, lg2) = (Lax { d: f.clone(), q: qf }, Lax { d: g.clone(), q: qg });
        let (a, b) = (to_lax(&lf2), to_lax(&lg2));
        let l = open_hypergraphs::category::Arrow::compose(&a, &b).ok_or_else(|| ctx.fail("lax-dagger-contravariant", "lax f;g undefined"))?.dagger();
        let r = open_hypergraphs::category::Arrow::compose(&b.dagger(), &a.dagger()).ok_or_else(|| ctx.fail("lax-dagger-contravariant", "lax g†;f† undefined although types match"))?;
        let l = wf(ctx, "dagger-wf", sv::from_strict(&l.to_strict()), "strict((f;g)†)")?;
        let r = wf(ctx, "dagger-wf", sv::from_strict(&r.to_strict()), "strict(g†;f†)")?;
        require_iso(ctx, "lax-dagger-contravariant", &l, &r, "lax (f;g)† vs g†;f†")?;
        let want = lf2.strictify().unwrap().compose(&lg2.strictify().unwrap()).expect("composable").dagger();
        require_iso(ctx, "lax-dagger-contravariant", &l, &want, "lax (f;g)† vs the model")?;
    }
    // (drawn last, so that the choices of the earlier sub-checks stay where they were)
    ctx.sub("lax-dagger-tensor");
    {
        let a = to_lax(&lf);
        // both operands with pending unifications, the tensor also taken in place (tensor_assign)
        let qg = gen::pending_pairs(t, g, 3, true);
        let n = f.nodes.len();
        let mut q2 = lf.q.clone();
        q2.extend(qg.iter().map(|&(v, w)| (v + n, w + n)));
        let want2 = Lax { d: f.juxtapose(g).dagger(), q: q2 };
        let b2 = to_lax(&Lax { d: g.clone(), q: qg });
        let mut acc = a.clone();
        acc.tensor_assign(b2.clone());
        for (name, l) in [("(f tensor_assign g)†", acc.dagger()), ("(f|g)†", a.tensor(&b2).dagger()), ("f† tensor_assign g†", { let mut x = a.dagger(); x.tensor_assign(b2.dagger()); x })] {
            let l = wf(ctx, "lax-dagger", from_lax(&l), name)?;
            ensure!(ctx, l == want2, "lax-dagger-tensor", "lax {name} with pending unifications on both sides is not the juxtaposition with swapped interfaces\n  got : {}\n  want: {}", l.pretty(), want2.pretty());
        }
    }
    if f.s != f.t && !f.edges.is_empty() {
        ctx.nontrivial(&(f, g));
        if ctx.want_sample {
            ctx.sample = Some(format!("dagger: f = {} ; g = {}", f.pretty(), g.pretty()));
        }
    }
    Ok(())
}

/// a labelled cospan: legs into w, possibly non-injective / non-surjective
fn cospan(t: &mut Tape, al: gen::Alpha, maxw: usize, maxleg: usize) -> Diagram {
    let n = t.range(0, maxw);
    let nodes: Vec<u32> = (0..n).map(|_| t.choice(al.nl) as u32).collect();
    let leg = |t: &mut Tape| -> Vec<usize> {
        if n == 0 {
            return vec![];
        }
        (0..t.range(0, maxleg)).map(|_| t.choice(n)).collect()
    };
    let s = leg(t);
    let tt = leg(t);
    Diagram::discrete(nodes, s, tt)
}

fn lib_spider(ctx: &Ctx, d: &Diagram, what: &str) -> Result<sv::SOH, Violation> {
    let n = d.nodes.len();
    sv::SOH::spider(sv::ff(d.s.clone(), n), sv::ff(d.t.clone(), n), sv::ty(&d.nodes))
        .ok_or_else(|| ctx.fail("spider-accepts", format!("{what}: spider() returned None although both legs land in the node list")))
}

fn fusion(t: &mut Tape, ctx: &mut Ctx, al: gen::Alpha) -> CheckResult {
    let sz = ctx.sizes;
    ctx.class("group:fusion");
    let a = cospan(t, al, sz.nodes, sz.boundary);
    let mut b = cospan(t, al, sz.nodes, sz.boundary);
    gen::with_source_type(t, &mut b, &a.target_type());
    ctx.set_dump(format!("spider1 = {}\nspider2 = {}", a.pretty(), b.pretty()));
    let sa = lib_spider(ctx, &a, "spider1")?;
    let sb = lib_spider(ctx, &b, "spider2")?;
    ctx.sub("spider-is-discrete-cospan");
    let ma = wf(ctx, "spider-wf", sv::from_strict(&sa), "spider1")?;
    ensure!(ctx, ma == a, "spider-is-discrete-cospan", "spider(s,t,w) is not the discrete cospan: {}", ma.pretty());
    let fused = (&sa >> &sb).ok_or_else(|| ctx.fail("spider-fusion", "composition of spiders undefined although types match"))?;
    let got = wf(ctx, "spider-wf", sv::from_strict(&fused), "spider1;spider2")?;
    ensure!(ctx, got.edges.is_empty() && fused.h.is_discrete(), "spider-fusion", "fused spider is not discrete: {}", got.pretty());
    let want = a.compose(&b).expect("types match by construction");
    require_iso(ctx, "spider-fusion", &got, &want, "spider fusion")?;
    // lax spider
    ctx.sub("lax-spider");
    let n = a.nodes.len();
    let ls = LOH::spider(sv::ff(a.s.clone(), n), sv::ff(a.t.clone(), n), obs(&a.nodes))
        .ok_or_else(|| ctx.fail("lax-spider", "lax spider returned None on legs that land in the node list"))?;
    let got_l = wf(ctx, "lax-spider", from_lax(&ls), "lax spider")?;
    ensure!(ctx, got_l == Lax { d: a.clone(), q: vec![] }, "lax-spider", "lax spider is not the discrete cospan: {}", got_l.pretty());
    // lax fusion: compose the lax spiders (checked and unchecked), strictify
    ctx.sub("lax-spider-fusion");
    let nb = b.nodes.len();
    let lsb = LOH::spider(sv::ff(b.s.clone(), nb), sv::ff(b.t.clone(), nb), obs(&b.nodes))
        .ok_or_else(|| ctx.fail("lax-spider", "lax spider returned None on legs that land in the node list"))?;
    let lfused = open_hypergraphs::category::Arrow::compose(&ls, &lsb).ok_or_else(|| ctx.fail("lax-spider-fusion", "lax composition of spiders undefined although types match"))?;
    let lf = wf(ctx, "spider-wf", sv::from_strict(&lfused.clone().to_strict()), "strict(lax spider1 ; lax spider2)")?;
    require_iso(ctx, "lax-spider-fusion", &lf, &want, "lax spider fusion")?;
    // the fusion carried out in place, by `quotient` and by its deprecated alias
    #[allow(deprecated)]
    for (name, which) in [("quotient", 0), ("quotient_witness", 1)] {
        let mut glued = lfused.clone();
        let r = if which == 0 { glued.quotient() } else { glued.quotient_witness() };
        ensure!(ctx, r.is_ok(), "lax-spider-fusion", "{name}() failed on a composite of two spiders with matching boundary labels");
        let g = wf(ctx, "spider-wf", from_lax(&glued), "fused lax spider")?;
        ensure!(ctx, g.q.is_empty(), "lax-spider-fusion", "{name}() left pending unifications");
        require_iso(ctx, "lax-spider-fusion", &g.d, &want, &format!("lax spider fusion glued in place by {name}()"))?;
    }
    ensure!(ctx, lf.edges.is_empty(), "lax-spider-fusion", "fused lax spider is not discrete");
    // identities, symmetries and half spiders are spiders
    ctx.sub("identity-twist-are-spiders");
    let w = a.nodes.clone();
    let id = wf(ctx, "spider-wf", sv::from_strict(&sv::SOH::identity(sv::ty(&w))), "identity")?;
    let all: Vec<usize> = (0..w.len()).collect();
    let sp = lib_spider(ctx, &Diagram::discrete(w.clone(), all.clone(), all.clone()), "spider(id,id,w)")?;
    ensure!(ctx, id == wf(ctx, "spider-wf", sv::from_strict(&sp), "spider(id,id,w)")?, "identity-twist-are-spiders", "identity(w) != spider(id,id,w)");
    let (x, y) = (a.source_type(), a.target_type());
    let tw = wf(ctx, "spider-wf", sv::from_strict(&sv::SOH::twist(sv::ty(&x), sv::ty(&y))), "twist")?;
    require_iso(ctx, "identity-twist-are-spiders", &tw, &Diagram::twist(&x, &y), "twist(a,b) vs the spider with transposed legs")?;
    ensure!(ctx, tw.edges.is_empty(), "identity-twist-are-spiders", "twist has hyperedges");
    let ltw = <LOH as SymmetricMonoidal>::twist(obs(&x), obs(&y));
    let ltw = wf(ctx, "spider-wf", sv::from_strict(&ltw.to_strict()), "lax twist")?;
    require_iso(ctx, "identity-twist-are-spiders", &ltw, &Diagram::twist(&x, &y), "lax twist(a,b) vs the spider with transposed legs")?;
    let lid = wf(ctx, "spider-wf", sv::from_strict(&LOH::identity(obs(&w)).to_strict()), "lax identity")?;
    require_iso(ctx, "identity-twist-are-spiders", &lid, &id, "lax identity(w) vs spider(id,id,w)")?;
    // half spider
    ctx.sub("half-spider");
    let hs = <sv::SOH as Spider<sv::K>>::half_spider(sv::ff(a.s.clone(), n), sv::ty(&a.nodes))
        .ok_or_else(|| ctx.fail("half-spider", "half_spider returned None on a leg that lands in the node list"))?;
    let hs = wf(ctx, "spider-wf", sv::from_strict(&hs), "half_spider")?;
    ensure!(ctx, hs == Diagram::discrete(a.nodes.clone(), a.s.clone(), (0..n).collect()), "half-spider", "half_spider(s,w) != spider(s,id,w): {}", hs.pretty());
    // the lax representation's half-spider is the same cospan
    let lhs = <LOH as Spider<sv::K>>::half_spider(sv::ff(a.s.clone(), n), obs(&a.nodes)).ok_or_else(|| ctx.fail("half-spider", "lax half_spider returned None on a leg that lands in the node list"))?;
    let lhs = wf(ctx, "spider-wf", from_lax(&lhs), "lax half_spider")?;
    ensure!(ctx, lhs == Lax { d: Diagram::discrete(a.nodes.clone(), a.s.clone(), (0..n).collect()), q: vec![] }, "half-spider", "lax half_spider(s,w) != spider(s,id,w): {}", lhs.pretty());

    // non-trivial: a merge happens and some node is missed by a leg
    let merges = want.nodes.len() < a.nodes.len() + b.nodes.len();
    let missed = (0..a.nodes.len()).any(|v| !a.s.contains(&v) && !a.t.contains(&v))
        || (0..b.nodes.len()).any(|v| !b.s.contains(&v) && !b.t.contains(&v));
    if merges && missed {
        ctx.nontrivial(&(&a, &b));
        if ctx.want_sample {
            ctx.sample = Some(format!("fusion: {} ; {} => {}", a.pretty(), b.pretty(), got.pretty()));
        }
    }
    Ok(())
}

fn rejection(t: &mut Tape, ctx: &mut Ctx, al: gen::Alpha) -> CheckResult {
    let sz = ctx.sizes;
    ctx.class("group:rejection");
    let n = t.range(0, sz.nodes);
    let w: Vec<u32> = (0..n).map(|_| t.choice(al.nl) as u32).collect();
    // codomain of each leg: n-1, n or n+1
    let cod = |t: &mut Tape| -> usize {
        match t.weighted(&[3, 1, 1]) {
            0 => n,
            1 => n + 1,
            _ => n.saturating_sub(1),
        }
    };
    let (cs, ct) = (cod(t), cod(t));
    let leg = |t: &mut Tape, c: usize| -> Vec<usize> {
        if c == 0 {
            return vec![];
        }
        (0..t.range(0, sz.boundary)).map(|_| t.choice(c)).collect()
    };
    let s = leg(t, cs);
    let tt = leg(t, ct);
    ctx.set_dump(format!("w = {:?} s = {:?} -> {} t = {:?} -> {}", w, s, cs, tt, ct));
    let expect = cs == n && ct == n;
    ctx.sub("spider-accepts-iff-legs-land");
    let r = sv::SOH::spider(sv::ff(s.clone(), cs), sv::ff(tt.clone(), ct), sv::ty(&w));
    ensure!(ctx, r.is_some() == expect, "spider-accepts-iff-legs-land", "strict spider: accepted = {} but legs land in w = {}", r.is_some(), expect);
    let r = <sv::SOH as Spider<sv::K>>::spider(sv::ff(s.clone(), cs), sv::ff(tt.clone(), ct), sv::ty(&w));
    ensure!(ctx, r.is_some() == expect, "spider-accepts-iff-legs-land", "strict Spider::spider: accepted = {} expected {}", r.is_some(), expect);
    if let Some(r) = r {
        let d = wf(ctx, "spider-wf", sv::from_strict(&r), "spider")?;
        ensure!(ctx, d == Diagram::discrete(w.clone(), s.clone(), tt.clone()), "spider-is-discrete-cospan", "spider differs from its data: {}", d.pretty());
    }
    let r = LOH::spider(sv::ff(s.clone(), cs), sv::ff(tt.clone(), ct), obs(&w));
    ensure!(ctx, r.is_some() == expect, "spider-accepts-iff-legs-land", "lax spider: accepted = {} expected {}", r.is_some(), expect);
    let r = <LOH as Spider<sv::K>>::spider(sv::ff(s.clone(), cs), sv::ff(tt.clone(), ct), obs(&w));
    ensure!(ctx, r.is_some() == expect, "spider-accepts-iff-legs-land", "lax Spider::spider: accepted = {} expected {}", r.is_some(), expect);
    // half spider: only the source leg matters (its target leg is the identity on s.target)
    let r = <sv::SOH as Spider<sv::K>>::half_spider(sv::ff(s.clone(), cs), sv::ty(&w));
    ensure!(ctx, r.is_some() == (cs == n), "spider-accepts-iff-legs-land", "strict half_spider: accepted = {} expected {}", r.is_some(), cs == n);
    let r = <LOH as Spider<sv::K>>::half_spider(sv::ff(s.clone(), cs), obs(&w));
    ensure!(ctx, r.is_some() == (cs == n), "spider-accepts-iff-legs-land", "lax half_spider: accepted = {} expected {}", r.is_some(), cs == n);
    if !expect {
        ctx.nontrivial(&(&w, &s, cs, &tt, ct));
        if ctx.want_sample {
            ctx.sample = Some(format!("rejection: {}", ctx.dump));
        }
    }
    Ok(())
}
