//! C08 — segmented arrays behave as lists of lists and keep their size invariant
use crate::engine::*;
use crate::ensure;
use crate::kinds::vec_inst as sv;
use crate::labels::{Ob, Op};
use crate::tape::Tape;
use open_hypergraphs::array::vec::VecArray;
use open_hypergraphs::category::Arrow;
use open_hypergraphs::indexed_coproduct::{HasLen, IndexedCoproduct};
use open_hypergraphs::operations::Operations;
use open_hypergraphs::semifinite::SemifiniteFunction;

pub static PROP: Prop = Prop {
    id: "C08",
    title: "Segmented arrays behave as lists of lists and keep their size invariant",
    check,
    max_tape: (90, 160),
    cases: (500_000, 5_000_000),
    both_profiles: false,
    rule: "lists of lists of indices / labels with empty segments and empty totals, re-indexing maps (non-injective, empty, mistyped), composable pairs for flatmap, raw (sizes, values) data for the checked constructors, operation batches; one operation group per case, decoded by explicit slicing; non-trivial = >= 2 segments with >= 1 empty and >= 1 non-empty one (iterator cases: >= 2 steps); distinct = hash of the generated data",
    assumptions: &["flatmap / flatmap_sources are only called inside their asserted preconditions (the library documents a panic otherwise)"],
    fixed: Some(fixed),
    scale: None,
};

type Lists = Vec<Vec<usize>>;

fn lists(t: &mut Tape, maxseg: usize, maxlen: usize, target: usize) -> Lists {
    let n = t.range(0, maxseg);
    (0..n)
        .map(|_| {
            if target == 0 {
                return vec![];
            }
            let k = match t.weighted(&[2, 3, 1]) {
                0 => 0,
                1 => t.range(0, maxlen),
                _ => 1,
            };
            (0..k).map(|_| t.choice(target)).collect()
        })
        .collect()
}

fn dec(ctx: &Ctx, ic: &sv::ICF, what: &str) -> Result<(Lists, usize), Violation> {
    sv::decode_icf(ic).map_err(|e| ctx.fail("size-invariant", format!("{what}: invariant broken: {e}")))
}
fn dec_s<T: Clone>(ctx: &Ctx, ic: &sv::ICS<T>, what: &str) -> Result<Vec<Vec<T>>, Violation> {
    sv::decode_ics(ic).map_err(|e| ctx.fail("size-invariant", format!("{what}: invariant broken: {e}")))
}

fn interesting(l: &Lists) -> bool {
    l.len() >= 2 && l.iter().any(|s| s.is_empty()) && l.iter().any(|s| !s.is_empty())
}

fn check(t: &mut Tape, ctx: &mut Ctx) -> CheckResult {
    let (ms, ml) = if ctx.tier == Tier::Quick { (5, 3) } else { (8, 5) };
    // medium cases: many segments, some of them long
    let (ms, ml) = if !ctx.medium {
        (ms, ml)
    } else if ctx.medium_profile % 2 == 0 {
        (ctx.medium_t + 2, ml)
    } else {
        (ms, ctx.medium_t + 2)
    };
    match t.choice(8) {
        0 => constructors(t, ctx, ms, ml),
        1 => basic(t, ctx, ms, ml),
        2 => reindex(t, ctx, ms, ml),
        3 => map_values(t, ctx, ms, ml),
        4 => flatmap(t, ctx, ms, ml),
        5 => flatmap_sources(t, ctx, ms, ml),
        6 => iterators(t, ctx, ms, ml),
        _ => operations(t, ctx, ms, ml),
    }
}

fn constructors(t: &mut Tape, ctx: &mut Ctx, ms: usize, ml: usize) -> CheckResult {
    ctx.class("group:checked-constructors");
    let target = t.range(0, 6);
    let ls = lists(t, ms, ml, target);
    let mut sizes: Vec<usize> = ls.iter().map(|l| l.len()).collect();
    let values: Vec<usize> = ls.iter().flatten().copied().collect();
    let sum: usize = sizes.iter().sum();
    // plant at most one flaw
    let mut cod = sum + 1;
    let flaw = t.weighted(&[3, 1, 1, 1, 1, 1]);
    match flaw {
        // any codomain that still admits the sizes (far too small or far too large included)
        5 => {
            let lo = sizes.iter().copied().max().map_or(0, |m| m + 1);
            cod = t.range(lo, sum + 4);
        }
        1 if !sizes.is_empty() => {
            let i = t.choice(sizes.len());
            sizes[i] += 1;
            cod += 1; // keep codomain = new sum + 1, so only "sum == len(values)" fails
        }
        2 if !sizes.is_empty() && sizes.iter().any(|&k| k > 0) => {
            let idx: Vec<usize> = (0..sizes.len()).filter(|&i| sizes[i] > 0).collect();
            let i = *t.pick(&idx);
            sizes[i] -= 1;
            cod -= 1;
        }
        3 => cod += 1,
        4 if cod > sizes.iter().copied().max().unwrap_or(0) + 1 || sum == 0 => {
            if cod > 1 && cod - 1 > sizes.iter().copied().max().unwrap_or(0) {
                cod -= 1
            }
        }
        _ => {}
    }
    let nsum: usize = sizes.iter().sum();
    ctx.set_dump(format!("sizes = {:?} codomain = {} values = {:?} -> {}", sizes, cod, values, target));
    let expect_new = cod == nsum + 1 && nsum == values.len();
    let expect_sf = nsum == values.len();
    ctx.sub("new-accepts-iff");
    if sizes.iter().all(|&k| k < cod) {
        let r = IndexedCoproduct::new(sv::ff(sizes.clone(), cod), sv::ff(values.clone(), target));
        ensure!(ctx, r.is_some() == expect_new, "new-accepts-iff", "IndexedCoproduct::new accepted = {} but invariant holds = {}", r.is_some(), expect_new);
        if let Some(r) = r {
            let (got, tg) = dec(ctx, &r, "new")?;
            ensure!(ctx, got.concat() == values && tg == target, "new-accepts-iff", "new changed the data");
        }
        // label-array values
        let lv: Vec<Ob> = values.iter().map(|&v| Ob(v as u32)).collect();
        let r = IndexedCoproduct::new(sv::ff(sizes.clone(), cod), sv::sf(lv));
        ensure!(ctx, r.is_some() == expect_new, "new-accepts-iff", "IndexedCoproduct::new (labels) accepted = {} want {}", r.is_some(), expect_new);
    }
    ctx.sub("from-semifinite-accepts-iff");
    let r = IndexedCoproduct::from_semifinite(sv::sf(sizes.clone()), sv::ff(values.clone(), target));
    ensure!(ctx, r.is_some() == expect_sf, "from-semifinite-accepts-iff", "from_semifinite accepted = {} but sizes sum to {} and there are {} values", r.is_some(), nsum, values.len());
    if let Some(r) = r {
        let (got, _) = dec(ctx, &r, "from_semifinite")?;
        let mut p = 0;
        for (i, &k) in sizes.iter().enumerate() {
            ensure!(ctx, got[i] == values[p..p + k], "from-semifinite-accepts-iff", "segment {i} is {:?}", got[i]);
            p += k;
        }
    }
    ctx.class_if(!expect_new, "planted-flaw");
    if !expect_new || interesting(&ls) {
        ctx.nontrivial(&("ctor", &sizes, cod, &values, target));
        if ctx.want_sample {
            ctx.sample = Some(format!("constructors: {} accept(new) = {expect_new}", ctx.dump));
        }
    }
    Ok(())
}

fn basic(t: &mut Tape, ctx: &mut Ctx, ms: usize, ml: usize) -> CheckResult {
    ctx.class("group:singleton-elements-coproduct-tensor");
    let (ta, tb) = (t.range(0, 6), t.range(0, 6));
    let a = lists(t, ms, ml, ta);
    let same_target = t.chance(3, 4);
    let tb = if same_target { ta } else { tb };
    let b = lists(t, ms, ml, tb);
    ctx.set_dump(format!("a = {:?} -> {} ; b = {:?} -> {}", a, ta, b, tb));
    let (ia, ib) = (sv::icf(&a, ta), sv::icf(&b, tb));
    ctx.sub("singleton-elements-initial");
    let flat: Vec<usize> = a.concat();
    let s = IndexedCoproduct::singleton(sv::ff(flat.clone(), ta));
    let (got, _) = dec(ctx, &s, "singleton")?;
    ensure!(ctx, got == vec![flat.clone()], "singleton-elements-initial", "singleton = {:?}", got);
    let e = IndexedCoproduct::elements(sv::ff(flat.clone(), ta));
    let (got, _) = dec(ctx, &e, "elements")?;
    ensure!(ctx, got == flat.iter().map(|&v| vec![v]).collect::<Vec<_>>(), "singleton-elements-initial", "elements = {:?}", got);
    let i = sv::ICF::initial(ta);
    let (got, tg) = dec(ctx, &i, "initial")?;
    ensure!(ctx, got.is_empty() && tg == ta, "singleton-elements-initial", "initial = {:?} -> {}", got, tg);
    ensure!(ctx, ia.len() == a.len() && HasLen::len(&ia) == a.len(), "singleton-elements-initial", "len() = {}", ia.len());
    ctx.sub("coproduct");
    let c = ia.coproduct(&ib);
    ensure!(ctx, c.is_some() == (ta == tb), "coproduct", "coproduct defined = {} but codomains {} {}", c.is_some(), ta, tb);
    if let Some(c) = c {
        let (got, tg) = dec(ctx, &c, "coproduct")?;
        let want: Lists = a.iter().chain(b.iter()).cloned().collect();
        ensure!(ctx, got == want && tg == ta, "coproduct", "coproduct = {:?} want {:?}", got, want);
    }
    // label arrays: always defined
    let la: Vec<Vec<Ob>> = a.iter().map(|l| l.iter().map(|&v| Ob(v as u32)).collect()).collect();
    let lb: Vec<Vec<Ob>> = b.iter().map(|l| l.iter().map(|&v| Ob(v as u32)).collect()).collect();
    let c = sv::ics(&la).coproduct(&sv::ics(&lb));
    let Some(c) = c else { return Err(ctx.fail("coproduct", "coproduct of label-array segments returned None")) };
    let got = dec_s(ctx, &c, "coproduct(labels)")?;
    ensure!(ctx, got == la.iter().chain(lb.iter()).cloned().collect::<Vec<_>>(), "coproduct", "label coproduct wrong");
    ctx.sub("tensor");
    let tn = ia.tensor(&ib);
    let (got, tg) = dec(ctx, &tn, "tensor")?;
    let want: Lists = a.iter().cloned().chain(b.iter().map(|l| l.iter().map(|v| v + ta).collect())).collect();
    ensure!(ctx, got == want && tg == ta + tb, "tensor", "tensor = {:?} -> {} want {:?} -> {}", got, tg, want, ta + tb);
    if interesting(&a) || interesting(&b) {
        ctx.nontrivial(&("basic", &a, ta, &b, tb));
        if ctx.want_sample {
            ctx.sample = Some(format!("coproduct/tensor: {}", ctx.dump));
        }
    }
    Ok(())
}

fn reindex(t: &mut Tape, ctx: &mut Ctx, ms: usize, ml: usize) -> CheckResult {
    ctx.class("group:map-indexes");
    let target = t.range(0, 6);
    let a = lists(t, ms, ml, target);
    let n = a.len();
    let xt = if t.chance(1, 5) { t.range(0, ms + 1) } else { n };
    let x: Vec<usize> = if xt == 0 { vec![] } else { (0..t.range(0, ms + 2)).map(|_| t.choice(xt)).collect() };
    ctx.set_dump(format!("a = {:?} -> {} ; x = {:?} -> {}", a, target, x, xt));
    let ia = sv::icf(&a, target);
    let xf = sv::ff(x.clone(), xt);
    ctx.sub("map-indexes");
    let r = ia.map_indexes(&xf);
    let iv = ia.indexed_values(&xf);
    ensure!(ctx, r.is_some() == (xt == n) && iv.is_some() == (xt == n), "map-indexes", "map_indexes defined = {} / indexed_values {} but x's codomain {} vs {} segments", r.is_some(), iv.is_some(), xt, n);
    if let (Some(r), Some(iv)) = (r, iv) {
        let (got, tg) = dec(ctx, &r, "map_indexes")?;
        let want: Lists = x.iter().map(|&i| a[i].clone()).collect();
        ensure!(ctx, got == want && tg == target, "map-indexes", "map_indexes = {:?} want {:?}", got, want);
        ensure!(ctx, iv.table.0 == want.concat() && iv.target == target, "map-indexes", "indexed_values = {:?} want {:?}", iv.table.0, want.concat());
        // the same on label arrays
        let la: Vec<Vec<Ob>> = a.iter().map(|l| l.iter().map(|&v| Ob(v as u32)).collect()).collect();
        let rl = sv::ics(&la).map_indexes(&xf).ok_or_else(|| ctx.fail("map-indexes", "map_indexes on label segments returned None"))?;
        let gotl = dec_s(ctx, &rl, "map_indexes(labels)")?;
        ensure!(ctx, gotl == x.iter().map(|&i| la[i].clone()).collect::<Vec<_>>(), "map-indexes", "map_indexes(labels) wrong");
        let mut sx = x.clone();
        sx.sort_unstable();
        ctx.class_if(sx.windows(2).any(|w| w[0] == w[1]), "non-injective-reindex");
        ctx.class_if(x.len() == n && sx.windows(2).any(|w| w[0] == w[1]), "same-count-non-bijective");
        if interesting(&a) && x.len() >= 2 {
            ctx.nontrivial(&("reindex", &a, &x));
            if ctx.want_sample {
                ctx.sample = Some(format!("map_indexes: {} = {:?}", ctx.dump, want));
            }
        }
    } else {
        ctx.class("mistyped-reindex");
    }
    Ok(())
}

fn map_values(t: &mut Tape, ctx: &mut Ctx, ms: usize, ml: usize) -> CheckResult {
    ctx.class("group:map-values");
    let target = t.range(0, 6);
    let a = lists(t, ms, ml, target);
    let xs = if t.chance(1, 5) { t.range(0, 6) } else { target };
    let xc = t.range(0, 6);
    let x: Vec<usize> = if xc == 0 { vec![] } else { (0..xs).map(|_| t.choice(xc)).collect() };
    let xs = x.len();
    ctx.set_dump(format!("a = {:?} -> {} ; x = {:?} -> {}", a, target, x, xc));
    let ia = sv::icf(&a, target);
    ctx.sub("map-values");
    let r = ia.map_values(&sv::ff(x.clone(), xc));
    ensure!(ctx, r.is_some() == (xs == target), "map-values", "map_values defined = {} but value codomain {} vs map domain {}", r.is_some(), target, xs);
    if let Some(r) = r {
        let (got, tg) = dec(ctx, &r, "map_values")?;
        let want: Lists = a.iter().map(|l| l.iter().map(|&v| x[v]).collect()).collect();
        ensure!(ctx, got == want && tg == xc, "map-values", "map_values = {:?} want {:?}", got, want);
    }
    ctx.sub("map-semifinite");
    let labels: Vec<Ob> = (0..xs).map(|i| Ob((i * 7 % 5) as u32)).collect();
    let r = ia.map_semifinite(&sv::sf(labels.clone()));
    ensure!(ctx, r.is_some() == (xs == target), "map-semifinite", "map_semifinite defined = {}", r.is_some());
    if let Some(r) = r {
        let got = dec_s(ctx, &r, "map_semifinite")?;
        let want: Vec<Vec<Ob>> = a.iter().map(|l| l.iter().map(|&v| labels[v]).collect()).collect();
        ensure!(ctx, got == want, "map-semifinite", "map_semifinite = {:?} want {:?}", got, want);
    }
    if interesting(&a) {
        ctx.nontrivial(&("map_values", &a, &x, xc));
        if ctx.want_sample {
            ctx.sample = Some(format!("map_values: {}", ctx.dump));
        }
    }
    Ok(())
}

fn flatmap(t: &mut Tape, ctx: &mut Ctx, ms: usize, ml: usize) -> CheckResult {
    ctx.class("group:flatmap");
    // self : A -> B*, other : B -> C*
    let nb = t.range(0, ms);
    let c = t.range(0, 6);
    let a = lists(t, ms, ml, nb);
    let mut b = lists(t, nb, ml, c);
    while b.len() < nb {
        b.push(vec![]);
    }
    b.truncate(nb);
    ctx.set_dump(format!("self = {:?} -> {} ; other = {:?} -> {}", a, nb, b, c));
    ctx.sub("flatmap");
    let r = sv::icf(&a, nb).flatmap(&sv::icf(&b, c));
    let (got, tg) = dec(ctx, &r, "flatmap")?;
    let want: Lists = a.iter().map(|l| l.iter().flat_map(|&j| b[j].iter().copied()).collect()).collect();
    ensure!(ctx, got == want && tg == c, "flatmap", "flatmap = {:?} -> {} want {:?} -> {}", got, tg, want, c);
    if interesting(&a) && b.iter().any(|l| l.len() != 1) {
        ctx.nontrivial(&("flatmap", &a, &b, c));
        if ctx.want_sample {
            ctx.sample = Some(format!("flatmap: {} = {:?}", ctx.dump, want));
        }
    }
    Ok(())
}

fn flatmap_sources(t: &mut Tape, ctx: &mut Ctx, ms: usize, ml: usize) -> CheckResult {
    ctx.class("group:flatmap-sources");
    // self : [[T]] ; other has one sublist per element of join(self)
    let a = lists(t, ms, ml, 5);
    let total: usize = a.iter().map(|l| l.len()).sum();
    let other: Vec<Vec<Ob>> = (0..total)
        .map(|_| (0..t.choice(3)).map(|_| Ob(t.choice(4) as u32)).collect())
        .collect();
    ctx.set_dump(format!("self = {:?} ; other = {:?}", a, other));
    ctx.sub("flatmap-sources");
    let r = sv::icf(&a, 5).flatmap_sources(&sv::ics(&other));
    let got = dec_s(ctx, &r, "flatmap_sources")?;
    let mut want: Vec<Vec<Ob>> = vec![];
    let mut p = 0;
    for l in &a {
        let mut seg = vec![];
        for _ in l {
            seg.extend(other[p].iter().copied());
            p += 1;
        }
        want.push(seg);
    }
    ensure!(ctx, got == want, "flatmap-sources", "flatmap_sources = {:?} want {:?}", got, want);
    if interesting(&a) {
        ctx.nontrivial(&("flatmap_sources", &a, &other));
        if ctx.want_sample {
            ctx.sample = Some(format!("flatmap_sources: {}", ctx.dump));
        }
    }
    Ok(())
}

fn iterators(t: &mut Tape, ctx: &mut Ctx, ms: usize, ml: usize) -> CheckResult {
    ctx.class("group:iterators");
    let target = t.range(0, 6);
    let a = lists(t, ms, ml, target);
    ctx.set_dump(format!("a = {:?} -> {}", a, target));
    iterate_ff(ctx, &a, target)?;
    let la: Vec<Vec<Ob>> = a.iter().map(|l| l.iter().map(|&v| Ob(v as u32)).collect()).collect();
    iterate_sf(ctx, &la)?;
    // a random walk of next / nth(k) / skip(k) / step_by(k) calls, also past the end
    let ops: Vec<(usize, usize)> = (0..t.range(1, 5)).map(|_| (t.choice(3), t.choice(a.len() + 3))).collect();
    walk(ctx, &a, target, &la, &ops)?;
    if a.len() >= 2 {
        ctx.nontrivial(&("iter", &a, target));
        if ctx.want_sample {
            ctx.sample = Some(format!("iterators: {}", ctx.dump));
        }
    }
    Ok(())
}

/// model of an iterator position: compare every answer with the plain list
fn walk(ctx: &mut Ctx, a: &Lists, target: usize, la: &[Vec<Ob>], ops: &[(usize, usize)]) -> CheckResult {
    ctx.sub("iterator-walk");
    let n = a.len();
    // finite-function values
    let mut it = sv::icf(a, target).into_iter();
    let mut pos = 0usize;
    for &(op, k) in ops {
        match op {
            0 => {
                let got = it.next().map(|f| f.table.0);
                let want = a.get(pos).cloned();
                ensure!(ctx, got == want, "iterator-walk", "next() at position {pos} = {:?} want {:?}", got, want);
                pos = (pos + 1).min(n);
            }
            _ => {
                let got = it.nth(k).map(|f| f.table.0);
                let want = a.get(pos + k).cloned();
                ensure!(ctx, got == want, "iterator-walk", "nth({k}) at position {pos} = {:?} want {:?}", got, want);
                pos = (pos + k + 1).min(n);
            }
        }
        let rem = n - pos;
        let r = lib(|| (it.len(), it.size_hint()));
        match r {
            Ok((l, h)) => ensure!(ctx, l == rem && h == (rem, Some(rem)), "iterator-walk", "after {:?} (position {pos} of {n}): len() = {l}, size_hint() = {:?}, but {rem} slices are still to come", ops, h),
            Err(p) => return Err(ctx.fail("iterator-walk", format!("after {:?} (position {pos} of {n}): len()/size_hint() panicked: {} at {}", ops, p.message, p.location))),
        }
    }
    // adaptors built on nth: skip and step_by, on the label-array iterator
    let (op0, k0) = ops[0];
    let ic = sv::ics(la);
    if op0 == 1 {
        let mut sk = ic.clone().into_iter().skip(k0);
        let first = sk.next().map(|f| f.0 .0);
        ensure!(ctx, first == la.get(k0).cloned(), "iterator-walk", "skip({k0}).next() = {:?} want {:?}", first, la.get(k0));
        let rest: Vec<Vec<Ob>> = sk.map(|f| f.0 .0).collect();
        let want: Vec<Vec<Ob>> = la.iter().skip(k0 + 1).cloned().collect();
        ensure!(ctx, rest == want, "iterator-walk", "skip({k0}) yields {:?} want {:?}", rest, want);
    } else {
        let st = k0 + 1;
        let got: Vec<Vec<Ob>> = ic.clone().into_iter().step_by(st).map(|f| f.0 .0).collect();
        let want: Vec<Vec<Ob>> = la.iter().step_by(st).cloned().collect();
        ensure!(ctx, got == want, "iterator-walk", "step_by({st}) yields {:?} want {:?}", got, want);
    }
    // the same walk on the label-array iterator
    let mut it = ic.into_iter();
    let mut pos = 0usize;
    for &(op, k) in ops {
        if op == 0 {
            let got = it.next().map(|f| f.0 .0);
            ensure!(ctx, got == la.get(pos).cloned(), "iterator-walk", "labels: next() at {pos} = {:?}", got);
            pos = (pos + 1).min(n);
        } else {
            let got = it.nth(k).map(|f| f.0 .0);
            ensure!(ctx, got == la.get(pos + k).cloned(), "iterator-walk", "labels: nth({k}) at {pos} = {:?}", got);
            pos = (pos + k + 1).min(n);
        }
        let rem = n - pos;
        match lib(|| (it.len(), it.size_hint())) {
            Ok((l, h)) => ensure!(ctx, l == rem && h == (rem, Some(rem)), "iterator-walk", "labels: after {:?}: len() = {l}, size_hint() = {:?}, but {rem} slices are still to come", ops, h),
            Err(p) => return Err(ctx.fail("iterator-walk", format!("labels: after {:?}: len()/size_hint() panicked: {}", ops, p.message))),
        }
    }
    Ok(())
}

fn iterate_ff(ctx: &mut Ctx, a: &Lists, target: usize) -> CheckResult {
    ctx.sub("iterator-finite");
    let mut it = sv::icf(a, target).into_iter();
    for (i, want) in a.iter().enumerate() {
        let remaining = a.len() - i;
        ensure!(ctx, it.len() == remaining, "iterator-finite", "before step {i}: len() = {} but {} slices are still to come", it.len(), remaining);
        ensure!(ctx, it.size_hint() == (remaining, Some(remaining)), "iterator-finite", "before step {i}: size_hint() = {:?} want {}", it.size_hint(), remaining);
        match it.next() {
            Some(f) => ensure!(ctx, &f.table.0 == want && f.target == target, "iterator-finite", "slice {i} = {:?} -> {} want {:?} -> {}", f.table.0, f.target, want, target),
            None => return Err(ctx.fail("iterator-finite", format!("iterator ended after {i} of {} slices", a.len()))),
        }
    }
    ensure!(ctx, it.len() == 0 && it.size_hint() == (0, Some(0)), "iterator-finite", "after the last slice len() = {}", it.len());
    ensure!(ctx, it.next().is_none(), "iterator-finite", "iterator yields more slices than segments");
    ensure!(ctx, it.next().is_none() && it.len() == 0, "iterator-finite", "iterator is not fused / len() != 0 at the end");
    Ok(())
}

fn iterate_sf(ctx: &mut Ctx, la: &[Vec<Ob>]) -> CheckResult {
    ctx.sub("iterator-semifinite");
    let ic = sv::ics(la);
    // borrowed slices (Vec backend only)
    let slices: Vec<&[Ob]> = ic.iter().collect();
    ensure!(ctx, slices.len() == la.len() && slices.iter().zip(la).all(|(s, w)| *s == &w[..]), "iterator-semifinite", "iter() yields {:?}", slices);
    let mut it = ic.clone().into_iter();
    for (i, want) in la.iter().enumerate() {
        let remaining = la.len() - i;
        ensure!(ctx, it.len() == remaining, "iterator-semifinite", "before step {i}: len() = {} but {} slices are still to come", it.len(), remaining);
        ensure!(ctx, it.size_hint() == (remaining, Some(remaining)), "iterator-semifinite", "before step {i}: size_hint() = {:?}", it.size_hint());
        match it.next() {
            Some(f) => ensure!(ctx, &f.0 .0 == want, "iterator-semifinite", "slice {i} = {:?} want {:?}", f.0 .0, want),
            None => return Err(ctx.fail("iterator-semifinite", format!("iterator ended after {i} of {} slices", la.len()))),
        }
    }
    ensure!(ctx, it.len() == 0 && it.next().is_none(), "iterator-semifinite", "iterator does not end cleanly");
    Ok(())
}

fn operations(t: &mut Tape, ctx: &mut Ctx, ms: usize, ml: usize) -> CheckResult {
    ctx.class("group:operation-batches");
    let n = t.range(0, ms);
    let labels: Vec<Op> = (0..n).map(|_| Op(t.choice(4) as u32)).collect();
    let mk = |t: &mut Tape, k: usize| -> Vec<Vec<Ob>> { (0..k).map(|_| (0..t.range(0, ml)).map(|_| Ob(t.choice(3) as u32)).collect()).collect() };
    let na = if t.chance(1, 5) { t.range(0, ms + 1) } else { n };
    let nb = if t.chance(1, 5) { t.range(0, ms + 1) } else { n };
    let a = mk(t, na);
    let b = mk(t, nb);
    ctx.set_dump(format!("labels = {:?} a = {:?} b = {:?}", labels, a, b));
    ctx.sub("operations-new-iff");
    let r = Operations::<sv::K, Ob, Op>::new(sv::sf(labels.clone()), sv::ics(&a), sv::ics(&b));
    let ok = na == n && nb == n;
    ensure!(ctx, r.is_some() == ok, "operations-new-iff", "Operations::new accepted = {} but counts are {} labels / {} source types / {} target types", r.is_some(), n, na, nb);
    if let Some(ops) = r {
        ctx.sub("operations-iter");
        ensure!(ctx, ops.len() == n, "operations-iter", "len() = {}", ops.len());
        let triples: Vec<(&Op, &[Ob], &[Ob])> = ops.iter().collect();
        ensure!(ctx, triples.len() == n, "operations-iter", "iter() yields {} triples for {} operations", triples.len(), n);
        for (i, (l, s, tt)) in triples.iter().enumerate() {
            ensure!(ctx, **l == labels[i] && *s == &a[i][..] && *tt == &b[i][..], "operations-iter", "triple {i} = ({:?},{:?},{:?})", l, s, tt);
        }
        let ops2 = ops.clone();
        ensure!(ctx, ops2.iter().count() == n, "operations-iter", "clone changes the batch");
    } else {
        ctx.class("mismatched-counts");
    }
    let s1 = Operations::<sv::K, Ob, Op>::singleton(Op(3), sv::sf(vec![Ob(1), Ob(2)]), sv::sf(vec![Ob(0)]));
    let tr: Vec<_> = s1.iter().collect();
    ensure!(ctx, tr.len() == 1 && *tr[0].0 == Op(3) && tr[0].1 == [Ob(1), Ob(2)] && tr[0].2 == [Ob(0)], "operations-iter", "singleton batch wrong");
    if n >= 2 || !ok {
        ctx.nontrivial(&("ops", &labels, &a, &b));
        if ctx.want_sample {
            ctx.sample = Some(format!("operations: {} accepted = {ok}", ctx.dump));
        }
    }
    let _ = (VecArray(vec![0usize]), SemifiniteFunction::<sv::K, Ob>(VecArray(vec![])));
    let _ = sv::FF::identity(0).source();
    Ok(())
}

/// hand-written regression cases: the iterator length defect (D4)
fn fixed(ctx: &mut Ctx) -> CheckResult {
    let a: Lists = vec![vec![0, 1], vec![], vec![2]];
    ctx.set_dump(format!("fixed: a = {:?}", a));
    iterate_ff(ctx, &a, 3)?;
    let la: Vec<Vec<Ob>> = a.iter().map(|l| l.iter().map(|&v| Ob(v as u32)).collect()).collect();
    iterate_sf(ctx, &la)
}
