//! Isomorphism decision procedure for the plain model.
//!
//! Two diagrams are isomorphic iff there are bijections on nodes and on hyperedges preserving
//! node labels, edge labels, every ordered source and target list elementwise, and both
//! interfaces position by position.
//!
//! Algorithm: cheap invariants; joint colour refinement on the incidence structure with
//! positions (interface positions are part of the initial node colour, so interface nodes are
//! pinned); individualise-and-refine backtracking on the smallest ambiguous colour class; a
//! final exact verification of the node bijection (edges compared as multisets).  `Iso` is only
//! returned after the exact verification and `NotIso` only on an invariant that isomorphic
//! diagrams must share (a hash collision can only cost time, never soundness).

use crate::model::Diagram;
use std::collections::HashMap;

#[derive(Debug, Clone, PartialEq, Eq)]
pub enum IsoResult {
    Iso,
    NotIso(String),
    Inconclusive,
}

impl IsoResult {
    pub fn is_iso(&self) -> bool {
        matches!(self, IsoResult::Iso)
    }
}

#[inline]
fn mix(a: u64, b: u64) -> u64 {
    // splitmix-style combiner (order dependent)
    let mut x = a
        .rotate_left(5)
        .wrapping_add(b)
        .wrapping_mul(0x9E37_79B9_7F4A_7C15);
    x ^= x >> 29;
    x = x.wrapping_mul(0xBF58_476D_1CE4_E5B9);
    x ^= x >> 32;
    x
}

fn hash_list(seed: u64, xs: impl Iterator<Item = u64>) -> u64 {
    let mut h = mix(seed, 0x1234_5678);
    for x in xs {
        h = mix(h, x);
    }
    h
}

struct Side<'a> {
    d: &'a Diagram,
    nc: Vec<u64>,
    ec: Vec<u64>,
    /// incidences per node: (edge, role 0=src 1=tgt, position)
    inc: Vec<Vec<(usize, u8, usize)>>,
}

impl<'a> Side<'a> {
    fn new(d: &'a Diagram) -> Side<'a> {
        let n = d.nodes.len();
        let mut spos: Vec<Vec<u64>> = vec![vec![]; n];
        let mut tpos: Vec<Vec<u64>> = vec![vec![]; n];
        for (i, &v) in d.s.iter().enumerate() {
            spos[v].push(i as u64);
        }
        for (i, &v) in d.t.iter().enumerate() {
            tpos[v].push(i as u64);
        }
        let nc = (0..n)
            .map(|v| {
                let a = hash_list(d.nodes[v] as u64, spos[v].iter().copied());
                hash_list(a, tpos[v].iter().copied())
            })
            .collect();
        let ec = d
            .edges
            .iter()
            .map(|e| mix(mix(e.label as u64, e.src.len() as u64), e.tgt.len() as u64))
            .collect();
        let mut inc = vec![vec![]; n];
        for (i, e) in d.edges.iter().enumerate() {
            for (p, &v) in e.src.iter().enumerate() {
                inc[v].push((i, 0u8, p));
            }
            for (p, &v) in e.tgt.iter().enumerate() {
                inc[v].push((i, 1u8, p));
            }
        }
        Side { d, nc, ec, inc }
    }

    fn refine_once(&mut self) {
        let new_ec: Vec<u64> = self
            .d
            .edges
            .iter()
            .enumerate()
            .map(|(i, e)| {
                let a = hash_list(self.ec[i], e.src.iter().map(|&v| self.nc[v]));
                hash_list(a, e.tgt.iter().map(|&v| self.nc[v]))
            })
            .collect();
        let new_nc: Vec<u64> = (0..self.d.nodes.len())
            .map(|v| {
                let mut xs: Vec<u64> = self.inc[v]
                    .iter()
                    .map(|&(e, r, p)| mix(mix(new_ec[e], r as u64), p as u64))
                    .collect();
                xs.sort_unstable();
                hash_list(self.nc[v], xs.into_iter())
            })
            .collect();
        self.ec = new_ec;
        self.nc = new_nc;
    }

    fn classes(&self) -> usize {
        let mut v = self.nc.clone();
        v.sort_unstable();
        v.dedup();
        let mut e = self.ec.clone();
        e.sort_unstable();
        e.dedup();
        v.len() + e.len()
    }
}

fn sorted(v: &[u64]) -> Vec<u64> {
    let mut v = v.to_vec();
    v.sort_unstable();
    v
}

struct Search {
    budget: usize,
}

impl Search {
    /// refine both sides to a fixpoint; false if colour multisets diverge
    fn refine(&mut self, a: &mut Side, b: &mut Side) -> bool {
        let mut prev = 0usize;
        loop {
            if sorted(&a.nc) != sorted(&b.nc) || sorted(&a.ec) != sorted(&b.ec) {
                return false;
            }
            let k = a.classes();
            if k == prev {
                return true;
            }
            prev = k;
            a.refine_once();
            b.refine_once();
        }
    }

    fn go(&mut self, a: &mut Side, b: &mut Side, depth: u64) -> Option<bool> {
        if self.budget == 0 {
            return None;
        }
        self.budget -= 1;
        if !self.refine(a, b) {
            return Some(false);
        }
        // group nodes of a by colour
        let mut groups: HashMap<u64, (Vec<usize>, Vec<usize>)> = HashMap::new();
        for (v, &c) in a.nc.iter().enumerate() {
            groups.entry(c).or_default().0.push(v);
        }
        for (v, &c) in b.nc.iter().enumerate() {
            groups.entry(c).or_default().1.push(v);
        }
        // smallest ambiguous class (deterministic tie-break by colour value)
        let mut best: Option<(usize, u64)> = None;
        for (&c, (xs, _)) in groups.iter() {
            if xs.len() > 1 {
                let key = (xs.len(), c);
                if best.map(|b| key < b).unwrap_or(true) {
                    best = Some(key);
                }
            }
        }
        match best {
            None => Some(verify(a, b)),
            Some((_, c)) => {
                let (xs, ys) = groups.remove(&c).unwrap();
                let u = xs[0];
                let fresh = mix(0xDEAD_BEEF_0000 + depth, c);
                let mut inconclusive = false;
                for &v in &ys {
                    let mut a2 = Side {
                        d: a.d,
                        nc: a.nc.clone(),
                        ec: a.ec.clone(),
                        inc: a.inc.clone(),
                    };
                    let mut b2 = Side {
                        d: b.d,
                        nc: b.nc.clone(),
                        ec: b.ec.clone(),
                        inc: b.inc.clone(),
                    };
                    a2.nc[u] = fresh;
                    b2.nc[v] = fresh;
                    match self.go(&mut a2, &mut b2, depth + 1) {
                        Some(true) => return Some(true),
                        Some(false) => {}
                        None => inconclusive = true,
                    }
                }
                if inconclusive {
                    None
                } else {
                    Some(false)
                }
            }
        }
    }
}

/// all node colour classes are singletons: build the bijection and verify exactly
fn verify(a: &Side, b: &Side) -> bool {
    let mut by_colour: HashMap<u64, usize> = HashMap::new();
    for (v, &c) in b.nc.iter().enumerate() {
        if by_colour.insert(c, v).is_some() {
            return false; // should not happen: singletons on a imply singletons on b
        }
    }
    let mut f = Vec::with_capacity(a.nc.len());
    for &c in &a.nc {
        match by_colour.get(&c) {
            Some(&v) => f.push(v),
            None => return false,
        }
    }
    check_bijection(a.d, b.d, &f)
}

/// exact check that the node map `f` (a bijection) extends to an isomorphism
pub fn check_bijection(a: &Diagram, b: &Diagram, f: &[usize]) -> bool {
    let n = a.nodes.len();
    if b.nodes.len() != n || f.len() != n {
        return false;
    }
    let mut seen = vec![false; n];
    for &v in f {
        if v >= n || seen[v] {
            return false;
        }
        seen[v] = true;
    }
    for v in 0..n {
        if a.nodes[v] != b.nodes[f[v]] {
            return false;
        }
    }
    if a.s.len() != b.s.len() || a.t.len() != b.t.len() {
        return false;
    }
    if a.s.iter().zip(&b.s).any(|(&x, &y)| f[x] != y) {
        return false;
    }
    if a.t.iter().zip(&b.t).any(|(&x, &y)| f[x] != y) {
        return false;
    }
    // edges as multisets of (label, mapped src, mapped tgt)
    let mut ea: Vec<(u32, Vec<usize>, Vec<usize>)> = a
        .edges
        .iter()
        .map(|e| {
            (
                e.label,
                e.src.iter().map(|&v| f[v]).collect(),
                e.tgt.iter().map(|&v| f[v]).collect(),
            )
        })
        .collect();
    let mut eb: Vec<(u32, Vec<usize>, Vec<usize>)> = b
        .edges
        .iter()
        .map(|e| (e.label, e.src.clone(), e.tgt.clone()))
        .collect();
    ea.sort();
    eb.sort();
    ea == eb
}

pub fn iso_budget(a: &Diagram, b: &Diagram, budget: usize) -> IsoResult {
    if a.nodes.len() != b.nodes.len() {
        return IsoResult::NotIso(format!(
            "node counts differ: {} vs {}",
            a.nodes.len(),
            b.nodes.len()
        ));
    }
    if a.edges.len() != b.edges.len() {
        return IsoResult::NotIso(format!(
            "edge counts differ: {} vs {}",
            a.edges.len(),
            b.edges.len()
        ));
    }
    if a.s.len() != b.s.len() || a.t.len() != b.t.len() {
        return IsoResult::NotIso("interface lengths differ".into());
    }
    let mut sa = Side::new(a);
    let mut sb = Side::new(b);
    let mut search = Search { budget };
    match search.go(&mut sa, &mut sb, 0) {
        Some(true) => IsoResult::Iso,
        Some(false) => IsoResult::NotIso("no structure-preserving bijection exists".into()),
        None => IsoResult::Inconclusive,
    }
}

pub fn iso(a: &Diagram, b: &Diagram) -> IsoResult {
    iso_budget(a, b, 20_000)
}

/// brute force over all node permutations (only for tiny diagrams; validation of `iso`)
pub fn iso_brute(a: &Diagram, b: &Diagram) -> bool {
    let n = a.nodes.len();
    if b.nodes.len() != n || a.edges.len() != b.edges.len() {
        return false;
    }
    let mut perm: Vec<usize> = (0..n).collect();
    fn rec(a: &Diagram, b: &Diagram, perm: &mut Vec<usize>, k: usize) -> bool {
        let n = perm.len();
        if k == n {
            return check_bijection(a, b, perm);
        }
        for i in k..n {
            perm.swap(k, i);
            if a.nodes[k] == b.nodes[perm[k]] && rec(a, b, perm, k + 1) {
                return true;
            }
            perm.swap(k, i);
        }
        false
    }
    rec(a, b, &mut perm, 0)
}
