// Included by kinds.rs once per array backend; `K`, `Arr<T>`, `mk`, `un`, `KIND_NAME` are in scope.
//
// Conversions model <-> strict go bottom-up through the *checked* constructors; strict -> model
// reads the raw public fields after a deep well-formedness check that is deliberately stronger
// than the library's own `validate()`.

#[allow(unused_imports)]
use open_hypergraphs::array::{Array, ArrayKind, NaturalArray, OrdArray};
use open_hypergraphs::category::*;
use open_hypergraphs::finite_function::FiniteFunction;
use open_hypergraphs::indexed_coproduct::IndexedCoproduct;
use open_hypergraphs::operations::Operations;
use open_hypergraphs::semifinite::SemifiniteFunction;
use open_hypergraphs::strict::functor::{define_map_arrow, Functor, Optic};
use open_hypergraphs::strict::hypergraph::arrow::{HypergraphArrow, InvalidHypergraphArrow};
use open_hypergraphs::strict::hypergraph::Hypergraph;
use open_hypergraphs::strict::open_hypergraph::OpenHypergraph;

use crate::functor_model::{OpticTable, TableFunctor};
use crate::labels::{Ob, Op};
use crate::model::{Diagram, Edge};

pub type FF = FiniteFunction<K>;
pub type SF<T> = SemifiniteFunction<K, T>;
pub type ICF = IndexedCoproduct<K, FF>;
pub type ICS<T> = IndexedCoproduct<K, SF<T>>;
pub type SH = Hypergraph<K, Ob, Op>;
pub type SOH = OpenHypergraph<K, Ob, Op>;

pub fn ff(table: Vec<usize>, target: usize) -> FF {
    assert!(table.iter().all(|&x| x < target), "harness: ff called with an out-of-range table {:?} / {}", table, target);
    FiniteFunction::new(mk(table), target).unwrap_or_else(|| panic!("{} FiniteFunction::new rejected a table whose entries are all below the target", crate::functor_model::CONSTRUCTOR_VIOLATION))
}

pub fn sf<T>(v: Vec<T>) -> SF<T> {
    SemifiniteFunction(mk(v))
}

pub fn icf(lists: &[Vec<usize>], target: usize) -> ICF {
    let sizes: Vec<usize> = lists.iter().map(|l| l.len()).collect();
    let values: Vec<usize> = lists.iter().flatten().copied().collect();
    IndexedCoproduct::from_semifinite(sf(sizes), ff(values, target))
        .unwrap_or_else(|| panic!("{} IndexedCoproduct::from_semifinite rejected sizes that add up to the number of values", crate::functor_model::CONSTRUCTOR_VIOLATION))
}

pub fn ics<T: Clone>(lists: &[Vec<T>]) -> ICS<T> {
    let sizes: Vec<usize> = lists.iter().map(|l| l.len()).collect();
    let values: Vec<T> = lists.iter().flatten().cloned().collect();
    IndexedCoproduct::from_semifinite(sf(sizes), sf(values))
        .unwrap_or_else(|| panic!("{} IndexedCoproduct::from_semifinite rejected sizes that add up to the number of values", crate::functor_model::CONSTRUCTOR_VIOLATION))
}

/// raw-field invariant of a segmented array + decoding into lists
pub fn check_segments(sizes_table: &[usize], sizes_target: usize, nvalues: usize) -> Result<(), String> {
    let sum: usize = sizes_table.iter().sum();
    if sum != nvalues {
        return Err(format!(
            "segment sizes {:?} sum to {} but there are {} values",
            sizes_table, sum, nvalues
        ));
    }
    if sizes_target != sum + 1 {
        return Err(format!(
            "size map codomain is {} but sum+1 is {}",
            sizes_target,
            sum + 1
        ));
    }
    // every table entry < codomain follows from the two conditions above
    Ok(())
}

pub fn decode_icf(ic: &ICF) -> Result<(Vec<Vec<usize>>, usize), String> {
    let sizes = un(&ic.sources.table);
    let values = un(&ic.values.table);
    check_segments(&sizes, ic.sources.target, values.len())?;
    if let Some(&m) = values.iter().max() {
        if m >= ic.values.target {
            return Err(format!(
                "value {} out of range of codomain {}",
                m, ic.values.target
            ));
        }
    }
    let mut out = Vec::with_capacity(sizes.len());
    let mut p = 0;
    for k in sizes {
        out.push(values[p..p + k].to_vec());
        p += k;
    }
    Ok((out, ic.values.target))
}

pub fn decode_ics<T: Clone>(ic: &ICS<T>) -> Result<Vec<Vec<T>>, String> {
    let sizes = un(&ic.sources.table);
    let values = un(&ic.values.0);
    check_segments(&sizes, ic.sources.target, values.len())?;
    let mut out = Vec::with_capacity(sizes.len());
    let mut p = 0;
    for k in sizes {
        out.push(values[p..p + k].to_vec());
        p += k;
    }
    Ok(out)
}

pub fn check_ff(f: &FF, what: &str) -> Result<Vec<usize>, String> {
    let t = un(&f.table);
    if let Some(&m) = t.iter().max() {
        if m >= f.target {
            return Err(format!("{what}: entry {m} >= codomain {}", f.target));
        }
    }
    Ok(t)
}

pub fn to_strict_h(d: &Diagram) -> SH {
    let n = d.nodes.len();
    let src: Vec<Vec<usize>> = d.edges.iter().map(|e| e.src.clone()).collect();
    let tgt: Vec<Vec<usize>> = d.edges.iter().map(|e| e.tgt.clone()).collect();
    let w = sf(d.nodes.iter().map(|&l| Ob(l)).collect());
    let x = sf(d.edges.iter().map(|e| Op(e.label)).collect());
    Hypergraph::new(icf(&src, n), icf(&tgt, n), w, x)
        .unwrap_or_else(|e| panic!("{} Hypergraph::new rejected well-formed data: {:?}", crate::functor_model::CONSTRUCTOR_VIOLATION, e))
}

pub fn to_strict(d: &Diagram) -> SOH {
    let n = d.nodes.len();
    OpenHypergraph::new(ff(d.s.clone(), n), ff(d.t.clone(), n), to_strict_h(d))
        .unwrap_or_else(|e| panic!("{} OpenHypergraph::new rejected well-formed data: {:?}", crate::functor_model::CONSTRUCTOR_VIOLATION, e))
}

/// deep well-formedness of a strict hypergraph from raw public fields; returns the model
pub fn from_strict_h(h: &SH) -> Result<Diagram, String> {
    let nodes: Vec<u32> = un(&h.w.0).iter().map(|o| o.0).collect();
    let labels: Vec<u32> = un(&h.x.0).iter().map(|o| o.0).collect();
    let n = nodes.len();
    let (src, st) = decode_icf(&h.s).map_err(|e| format!("sources: {e}"))?;
    let (tgt, tt) = decode_icf(&h.t).map_err(|e| format!("targets: {e}"))?;
    if src.len() != labels.len() {
        return Err(format!(
            "{} source lists for {} hyperedges",
            src.len(),
            labels.len()
        ));
    }
    if tgt.len() != labels.len() {
        return Err(format!(
            "{} target lists for {} hyperedges",
            tgt.len(),
            labels.len()
        ));
    }
    if st != n {
        return Err(format!("source incidence codomain {st} != node count {n}"));
    }
    if tt != n {
        return Err(format!("target incidence codomain {tt} != node count {n}"));
    }
    let edges = labels
        .into_iter()
        .zip(src.into_iter().zip(tgt))
        .map(|(label, (src, tgt))| Edge { label, src, tgt })
        .collect();
    Ok(Diagram {
        nodes,
        edges,
        s: vec![],
        t: vec![],
    })
}

pub fn from_strict(f: &SOH) -> Result<Diagram, String> {
    let mut d = from_strict_h(&f.h)?;
    let n = d.nodes.len();
    let s = check_ff(&f.s, "source interface")?;
    let t = check_ff(&f.t, "target interface")?;
    if f.s.target != n {
        return Err(format!(
            "source interface codomain {} != node count {n}",
            f.s.target
        ));
    }
    if f.t.target != n {
        return Err(format!(
            "target interface codomain {} != node count {n}",
            f.t.target
        ));
    }
    d.s = s;
    d.t = t;
    Ok(d)
}

pub fn ty(v: &[u32]) -> SF<Ob> {
    sf(v.iter().map(|&l| Ob(l)).collect())
}
pub fn unty(s: &SF<Ob>) -> Vec<u32> {
    un(&s.0).iter().map(|o| o.0).collect()
}

// ------------------------------------------------------------------------------------------
// observations used by several properties (and by the backend-independence check)

pub fn op_compose(f: &Diagram, g: &Diagram) -> Result<Option<Diagram>, String> {
    let (sf_, sg) = (to_strict(f), to_strict(g));
    match &sf_ >> &sg {
        None => Ok(None),
        Some(h) => from_strict(&h).map(Some),
    }
}

pub fn op_tensor(f: &Diagram, g: &Diagram) -> Result<Diagram, String> {
    let (sf_, sg) = (to_strict(f), to_strict(g));
    from_strict(&(&sf_ | &sg))
}

// ------------------------------------------------------------------------------------------
// functors given by tables

pub struct SFunctor(pub TableFunctor);

impl Functor<K, Ob, Op, Ob, Op> for SFunctor {
    fn map_object(&self, a: &SF<Ob>) -> ICS<Ob> {
        let lists: Vec<Vec<Ob>> = un(&a.0)
            .iter()
            .map(|o| self.0.object(o.0).iter().map(|&l| Ob(l)).collect())
            .collect();
        ics(&lists)
    }

    fn map_operations(&self, ops: Operations<K, Ob, Op>) -> SOH {
        let labels = un(&ops.x.0);
        let a = decode_ics(&ops.a).unwrap_or_else(|e| panic!("{} the library passed a malformed segmented array of source types to the functor: {e}", crate::functor_model::CALLBACK_VIOLATION));
        let b = decode_ics(&ops.b).unwrap_or_else(|e| panic!("{} the library passed a malformed segmented array of target types to the functor: {e}", crate::functor_model::CALLBACK_VIOLATION));
        let mut acc: SOH = OpenHypergraph::identity(ty(&[]));
        for (i, l) in labels.iter().enumerate() {
            let at: Vec<u32> = a[i].iter().map(|o| o.0).collect();
            let bt: Vec<u32> = b[i].iter().map(|o| o.0).collect();
            let img = self.0.operation_cb(l.0, &at, &bt);
            acc = acc.tensor(&to_strict(&img));
        }
        acc
    }

    fn map_arrow(&self, f: &SOH) -> SOH {
        define_map_arrow(self, f)
    }
}

pub fn op_map_arrow(t: &TableFunctor, d: &Diagram) -> Result<Diagram, String> {
    let f = SFunctor(t.clone());
    from_strict(&f.map_arrow(&to_strict(d)))
}

pub fn make_optic(t: &OpticTable) -> Optic<SFunctor, SFunctor, K, Ob, Op, Ob, Op> {
    let res = t.residual.clone();
    Optic::new(
        SFunctor(t.fwd.clone()),
        SFunctor(t.rev.clone()),
        Box::new(move |ops: &Operations<K, Ob, Op>| {
            let labels = un(&ops.x.0);
            let a = decode_ics(&ops.a).unwrap_or_else(|e| panic!("{} the library passed a malformed segmented array of source types to the functor: {e}", crate::functor_model::CALLBACK_VIOLATION));
            let b = decode_ics(&ops.b).unwrap_or_else(|e| panic!("{} the library passed a malformed segmented array of target types to the functor: {e}", crate::functor_model::CALLBACK_VIOLATION));
            let lists: Vec<Vec<Ob>> = labels
                .iter()
                .enumerate()
                .map(|(i, l)| {
                    let at: Vec<u32> = a[i].iter().map(|o| o.0).collect();
                    let bt: Vec<u32> = b[i].iter().map(|o| o.0).collect();
                    res.get(&(l.0, at.clone(), bt.clone()))
                        .unwrap_or_else(|| panic!("{} the library asked for the residual of operation {} : {:?} -> {:?}, which is not an operation (with these types) of the diagram", crate::functor_model::CALLBACK_VIOLATION, l.0, at, bt))
                        .iter()
                        .map(|&x| Ob(x))
                        .collect()
                })
                .collect();
            ics(&lists)
        }),
    )
}

pub fn op_optic(t: &OpticTable, d: &Diagram) -> Result<Diagram, String> {
    let o = make_optic(t);
    from_strict(&o.map_arrow(&to_strict(d)))
}

pub fn op_optic_adapted(t: &OpticTable, d: &Diagram) -> Result<Diagram, String> {
    let o = make_optic(t);
    let sd = to_strict(d);
    let img = o.map_arrow(&sd);
    from_strict(&o.adapt(&img, &sd.source(), &sd.target()))
}

// ------------------------------------------------------------------------------------------
// layering / evaluation / predicates

pub fn op_layer(d: &Diagram) -> Result<(Vec<usize>, Vec<usize>), String> {
    let f = to_strict(d);
    let (order, unvisited) = open_hypergraphs::strict::layer::layer(&f);
    let table = check_ff(&order, "layer order")?;
    Ok((table, un(&unvisited)))
}

pub fn op_layered_operations(d: &Diagram) -> (Vec<Vec<usize>>, Vec<usize>) {
    let f = to_strict(d);
    let (groups, unvisited) = open_hypergraphs::strict::layer::layered_operations(&f);
    (groups.iter().map(|g| un(g)).collect(), un(&unvisited))
}

/// evaluate with an interpreter `interp(label, args) -> results`; also returns the list of
/// (label, args) applications the library requested, in order
#[allow(clippy::type_complexity)]
pub fn op_eval(
    d: &Diagram,
    inputs: &[u64],
    interp: &dyn Fn(u32, &[u64]) -> Vec<u64>,
) -> (Option<Vec<u64>>, Vec<(u32, Vec<u64>)>) {
    use std::cell::RefCell;
    let f = to_strict(d);
    let log: RefCell<Vec<(u32, Vec<u64>)>> = RefCell::new(vec![]);
    let out = open_hypergraphs::strict::eval::eval::<K, Ob, Op, u64>(
        &f,
        mk(inputs.to_vec()),
        |ops: SF<Op>, args: ICS<u64>| {
            let labels = un(&ops.0);
            // an interpreter may read its argument lists from the raw fields or through the
            // library's owning iterator (the way the library's own examples do): both readings
            // must give the same lists
            let iterated: Vec<Vec<u64>> = args.clone().into_iter().map(|x| un(&x.0)).collect();
            let args = decode_ics(&args).unwrap_or_else(|e| panic!("{} eval passed a malformed segmented array of arguments to apply: {e}", crate::functor_model::CALLBACK_VIOLATION));
            assert!(iterated == args, "library-violation:eval-arguments-iterate: iterating the argument lists eval passed to apply yields {:?} but their fields hold {:?}", iterated, args);
            assert!(labels.len() == args.len(), "{} eval passed {} operations but {} argument lists to apply", crate::functor_model::CALLBACK_VIOLATION, labels.len(), args.len());
            let mut outs: Vec<Vec<u64>> = vec![];
            for (l, a) in labels.iter().zip(args.iter()) {
                log.borrow_mut().push((l.0, a.clone()));
                outs.push(interp(l.0, a));
            }
            ics(&outs)
        },
    );
    (out.map(|o| un(&o)), log.into_inner())
}

pub fn op_is_acyclic(d: &Diagram) -> bool {
    to_strict(d).is_acyclic()
}
pub fn op_is_acyclic_h(d: &Diagram) -> bool {
    to_strict_h(d).is_acyclic()
}
pub fn op_is_monogamous(d: &Diagram) -> bool {
    to_strict(d).is_monogamous()
}
pub fn op_degrees(d: &Diagram) -> (Vec<usize>, Vec<usize>) {
    let h = to_strict_h(d);
    let n = d.nodes.len();
    (
        (0..n).map(|v| h.in_degree(v)).collect(),
        (0..n).map(|v| h.out_degree(v)).collect(),
    )
}

/// outcome of HypergraphArrow::new as a string ("Ok" or the variant name) + predicates
pub fn op_arrow(
    src: &Diagram,
    tgt: &Diagram,
    w: (&[usize], usize),
    x: (&[usize], usize),
) -> (String, Option<(bool, bool)>) {
    let r = HypergraphArrow::new(
        to_strict_h(src),
        to_strict_h(tgt),
        ff(w.0.to_vec(), w.1),
        ff(x.0.to_vec(), x.1),
    );
    match r {
        Ok(a) => {
            let b = a.clone();
            assert!(b.w == a.w && b.x == a.x, "{}clone-is-identical: HypergraphArrow::clone changed the maps", crate::functor_model::LIB_VIOLATION);
            ("Ok".to_string(), Some((b.is_monomorphism(), a.is_convex_subgraph())))
        }
        Err(e) => (
            match e {
                InvalidHypergraphArrow::TypeMismatchW => "TypeMismatchW",
                InvalidHypergraphArrow::TypeMismatchX => "TypeMismatchX",
                InvalidHypergraphArrow::NotNaturalW => "NotNaturalW",
                InvalidHypergraphArrow::NotNaturalX => "NotNaturalX",
                InvalidHypergraphArrow::NotNaturalS => "NotNaturalS",
                InvalidHypergraphArrow::NotNaturalT => "NotNaturalT",
            }
            .to_string(),
            None,
        ),
    }
}
