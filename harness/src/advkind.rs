//! `AdvKind`: a second, contract-conforming array backend written from the trait documentation
//! in `src/array/traits.rs`.  The four choices the contract leaves open are resolved by a
//! per-case configuration word (thread-local):
//!
//! * bit 0..2  — `argsort` tie order (0 = by index (stable), 1 = reverse index, 2.. = seeded)
//! * bit 3..5  — numbering of connected components (0 = first occurrence, 1 = reversed, 2.. = rotated)
//! * bit 6..8  — key order of `sparse_bincount` (0 = ascending, 1 = descending, 7 = alternating from call to call, else rotated)
//! * bit 9..11 — filler of `scatter` for unwritten slots (0 = first element, 1 = last, 2.. = seeded)
//!
//! Configuration 0 resolves all four exactly as the Vec backend does.

use core::ops::{Add, RangeBounds, Sub};
use open_hypergraphs::array::*;
use std::cell::Cell;

#[derive(PartialEq, Eq, Clone, Debug)]
pub struct AdvKind {}

#[derive(Clone, Debug, PartialEq, Eq)]
pub struct AdvArray<T>(pub Vec<T>);

thread_local! {
    static CFG: Cell<u64> = const { Cell::new(0) };
    /// how often an open choice was actually exercised: [ties, components>=2, keys>=2, unwritten]
    static USED: Cell<[u64; 4]> = const { Cell::new([0; 4]) };
    /// number of `sparse_bincount` calls since the configuration was set (mode 7 answers differently on every other call)
    static CALLS: Cell<u64> = const { Cell::new(0) };
}

pub fn set_config(c: u64) {
    CFG.with(|x| x.set(c));
    USED.with(|x| x.set([0; 4]));
    CALLS.with(|x| x.set(0));
}
pub fn config() -> u64 {
    CFG.with(|x| x.get())
}
pub fn used() -> [u64; 4] {
    USED.with(|x| x.get())
}
fn bump(i: usize) {
    USED.with(|x| {
        let mut u = x.get();
        u[i] += 1;
        x.set(u);
    });
}
fn field(i: u32) -> u64 {
    (config() >> (3 * i)) & 7
}
fn scramble(a: u64, b: u64) -> u64 {
    let mut x = a.wrapping_mul(0x9E37_79B9_7F4A_7C15) ^ b.wrapping_mul(0xD1B5_4A32_D192_ED03);
    x ^= x >> 31;
    x = x.wrapping_mul(0xBF58_476D_1CE4_E5B9);
    x ^ (x >> 29)
}

impl ArrayKind for AdvKind {
    type Type<T> = AdvArray<T>;
    type I = usize;
    type Index = AdvArray<usize>;
    type Slice<'a, T: 'a> = &'a [T];
}

impl AsRef<AdvArray<usize>> for AdvArray<usize> {
    fn as_ref(&self) -> &AdvArray<usize> {
        self
    }
}
impl AsMut<AdvArray<usize>> for AdvArray<usize> {
    fn as_mut(&mut self) -> &mut AdvArray<usize> {
        self
    }
}

fn clamp<T, R: RangeBounds<usize>>(a: &AdvArray<T>, r: R) -> core::ops::Range<usize>
where
    T: Clone,
{
    <AdvArray<T> as Array<AdvKind, T>>::to_range(a, r)
}

impl<T: Clone> Array<AdvKind, T> for AdvArray<T> {
    fn empty() -> Self {
        AdvArray(Vec::new())
    }
    fn len(&self) -> usize {
        self.0.len()
    }
    fn from_slice(slice: &[T]) -> Self {
        AdvArray(slice.to_vec())
    }
    fn concatenate(&self, other: &Self) -> Self {
        let mut v = self.0.clone();
        v.extend(other.0.iter().cloned());
        AdvArray(v)
    }
    fn fill(x: T, n: usize) -> Self {
        AdvArray((0..n).map(|_| x.clone()).collect())
    }
    fn get(&self, i: usize) -> T {
        self.0[i].clone()
    }
    fn get_range<R: RangeBounds<usize>>(&self, rb: R) -> &[T] {
        let r = clamp(self, rb);
        &self.0[r]
    }
    fn set_range<R: RangeBounds<usize>>(&mut self, rb: R, v: &AdvArray<T>) {
        let r = clamp(self, rb);
        assert_eq!(r.end - r.start, v.0.len());
        for (k, x) in v.0.iter().enumerate() {
            self.0[r.start + k] = x.clone();
        }
    }
    fn gather(&self, idx: &[usize]) -> Self {
        let mut out = Vec::with_capacity(idx.len());
        for &i in idx {
            out.push(self.0[i].clone());
        }
        AdvArray(out)
    }
    fn scatter(&self, idx: &[usize], n: usize) -> Self {
        assert_eq!(self.0.len(), idx.len());
        if self.0.is_empty() {
            return AdvArray(Vec::new());
        }
        let filler = match field(3) {
            0 => 0,
            1 => self.0.len() - 1,
            k => (scramble(k, n as u64) % self.0.len() as u64) as usize,
        };
        let mut written = vec![false; n];
        let mut out: Vec<T> = (0..n).map(|_| self.0[filler].clone()).collect();
        for (k, &i) in idx.iter().enumerate() {
            assert!(i < n, "scatter index out of range");
            out[i] = self.0[k].clone();
            written[i] = true;
        }
        if written.iter().any(|w| !w) {
            bump(3);
        }
        AdvArray(out)
    }
    fn scatter_assign(&mut self, ixs: &AdvArray<usize>, values: Self) {
        // numpy semantics self[ixs] = values; the last write to an index wins
        for (k, &i) in ixs.0.iter().enumerate() {
            if k < values.0.len() {
                self.0[i] = values.0[k].clone();
            }
        }
    }
    fn scatter_assign_constant(&mut self, ixs: &AdvArray<usize>, arg: T) {
        for &i in ixs.0.iter() {
            self.0[i] = arg.clone();
        }
    }
}

impl Add<&AdvArray<usize>> for usize {
    type Output = AdvArray<usize>;
    fn add(self, rhs: &AdvArray<usize>) -> AdvArray<usize> {
        AdvArray(rhs.0.iter().map(|x| self + x).collect())
    }
}

impl Add<AdvArray<usize>> for AdvArray<usize> {
    type Output = AdvArray<usize>;
    fn add(self, rhs: AdvArray<usize>) -> AdvArray<usize> {
        assert_eq!(self.0.len(), rhs.0.len());
        AdvArray(self.0.iter().zip(rhs.0.iter()).map(|(a, b)| a + b).collect())
    }
}

impl Sub<AdvArray<usize>> for AdvArray<usize> {
    type Output = AdvArray<usize>;
    fn sub(self, rhs: AdvArray<usize>) -> AdvArray<usize> {
        assert_eq!(self.0.len(), rhs.0.len());
        AdvArray(self.0.iter().zip(rhs.0.iter()).map(|(a, b)| a - b).collect())
    }
}

impl<T: Ord + Clone> OrdArray<AdvKind, T> for AdvArray<T> {
    fn argsort(&self) -> AdvArray<usize> {
        let n = self.0.len();
        let mode = field(0);
        let mut idx: Vec<usize> = (0..n).collect();
        let key2 = |i: usize| -> u64 {
            match mode {
                0 => i as u64,
                1 => (n - i) as u64,
                k => scramble(k, i as u64),
            }
        };
        idx.sort_by(|&a, &b| self.0[a].cmp(&self.0[b]).then(key2(a).cmp(&key2(b))));
        // were there ties?
        let mut s = self.0.clone();
        s.sort();
        if s.windows(2).any(|w| w[0] == w[1]) {
            bump(0);
        }
        AdvArray(idx)
    }
}

fn uf_find(p: &mut Vec<usize>, mut x: usize) -> usize {
    while p[x] != x {
        p[x] = p[p[x]];
        x = p[x];
    }
    x
}

impl NaturalArray<AdvKind> for AdvArray<usize> {
    fn max(&self) -> Option<usize> {
        self.0.iter().copied().max()
    }
    fn cumulative_sum(&self) -> Self {
        let mut out = Vec::with_capacity(self.0.len() + 1);
        let mut acc = 0usize;
        out.push(0);
        for &x in &self.0 {
            acc += x;
            out.push(acc);
        }
        AdvArray(out)
    }
    fn arange(start: &usize, stop: &usize) -> Self {
        assert!(start <= stop);
        AdvArray((*start..*stop).collect())
    }
    fn repeat(&self, x: &[usize]) -> Self {
        assert_eq!(self.0.len(), x.len());
        let mut out = Vec::new();
        for (k, &v) in self.0.iter().zip(x.iter()) {
            for _ in 0..*k {
                out.push(v);
            }
        }
        AdvArray(out)
    }
    fn quot_rem(&self, d: usize) -> (Self, Self) {
        assert!(d != 0, "division by zero");
        (
            AdvArray(self.0.iter().map(|x| x / d).collect()),
            AdvArray(self.0.iter().map(|x| x % d).collect()),
        )
    }
    fn mul_constant_add(&self, c: usize, x: &Self) -> Self {
        assert_eq!(self.0.len(), x.0.len());
        AdvArray(
            self.0
                .iter()
                .zip(x.0.iter())
                .map(|(a, b)| a * c + b)
                .collect(),
        )
    }
    fn connected_components(sources: &Self, targets: &Self, n: usize) -> (Self, usize) {
        assert_eq!(sources.0.len(), targets.0.len());
        let mut p: Vec<usize> = (0..n).collect();
        for (&a, &b) in sources.0.iter().zip(targets.0.iter()) {
            assert!(a < n && b < n);
            let (ra, rb) = (uf_find(&mut p, a), uf_find(&mut p, b));
            if ra != rb {
                p[ra.max(rb)] = ra.min(rb);
            }
        }
        // dense numbering by first occurrence
        let mut id = vec![usize::MAX; n];
        let mut k = 0usize;
        let mut cc = vec![0usize; n];
        for i in 0..n {
            let r = uf_find(&mut p, i);
            if id[r] == usize::MAX {
                id[r] = k;
                k += 1;
            }
            cc[i] = id[r];
        }
        // renumber the components (still a dense numbering 0..k)
        let mode = field(1);
        if k >= 2 {
            bump(1);
            match mode {
                0 => {}
                1 => {
                    for c in cc.iter_mut() {
                        *c = k - 1 - *c;
                    }
                }
                m => {
                    let rot = (scramble(m, k as u64) % k as u64) as usize;
                    for c in cc.iter_mut() {
                        *c = (*c + rot) % k;
                    }
                }
            }
        }
        (AdvArray(cc), k)
    }
    fn bincount(&self, size: usize) -> AdvArray<usize> {
        let mut out = vec![0usize; size];
        for &x in &self.0 {
            out[x] += 1;
        }
        AdvArray(out)
    }
    fn sparse_bincount(&self) -> (AdvArray<usize>, AdvArray<usize>) {
        let mut m: std::collections::BTreeMap<usize, usize> = std::collections::BTreeMap::new();
        for &x in &self.0 {
            *m.entry(x).or_insert(0) += 1;
        }
        let mut pairs: Vec<(usize, usize)> = m.into_iter().collect();
        let k = pairs.len();
        if k >= 2 {
            bump(2);
            match field(2) {
                0 => {}
                1 => pairs.reverse(),
                // the contract does not promise the same order on two calls either
                7 => {
                    let n = CALLS.with(|x| {
                        x.set(x.get() + 1);
                        x.get()
                    });
                    if n % 2 == 0 {
                        pairs.reverse();
                    }
                }
                mm => {
                    let rot = (scramble(mm, k as u64) % k as u64) as usize;
                    pairs.rotate_left(rot);
                }
            }
        }
        (
            AdvArray(pairs.iter().map(|p| p.0).collect()),
            AdvArray(pairs.iter().map(|p| p.1).collect()),
        )
    }
    fn zero(&self) -> AdvArray<usize> {
        AdvArray(
            self.0
                .iter()
                .enumerate()
                .filter(|(_, &x)| x == 0)
                .map(|(i, _)| i)
                .collect(),
        )
    }
    fn scatter_sub_assign(&mut self, ixs: &AdvArray<usize>, rhs: &AdvArray<usize>) {
        assert_eq!(ixs.0.len(), rhs.0.len());
        for (k, &i) in ixs.0.iter().enumerate() {
            self.0[i] -= rhs.0[k];
        }
    }
}
