//! The strict-module glue code, instantiated once per array backend (same source text,
//! included twice with a different `K`).

pub mod vec_inst {
    pub use open_hypergraphs::array::vec::{VecArray, VecKind};
    pub type K = VecKind;
    pub type Arr<T> = VecArray<T>;
    pub fn mk<T>(v: Vec<T>) -> Arr<T> {
        VecArray(v)
    }
    pub fn un<T: Clone>(a: &Arr<T>) -> Vec<T> {
        a.0.clone()
    }
    pub const KIND_NAME: &str = "VecKind";
    include!("strict_ops.rs");
}

pub mod adv_inst {
    pub use crate::advkind::{AdvArray, AdvKind};
    pub type K = AdvKind;
    pub type Arr<T> = AdvArray<T>;
    pub fn mk<T>(v: Vec<T>) -> Arr<T> {
        AdvArray(v)
    }
    pub fn un<T: Clone>(a: &Arr<T>) -> Vec<T> {
        a.0.clone()
    }
    pub const KIND_NAME: &str = "AdvKind";
    include!("strict_ops.rs");
}
