//! ohv — property-based verification harness for open-hypergraphs (see /verif/DESIGN.md)
#![allow(clippy::needless_range_loop, clippy::type_complexity, clippy::too_many_arguments)]
pub mod advkind;
pub mod engine;
pub mod functor_model;
pub mod gen;
pub mod iso;
pub mod kinds;
pub mod labels;
pub mod lax_ops;
pub mod model;
pub mod props;
pub mod tape;

use engine::*;

pub fn find_prop(id: &str) -> Option<&'static Prop> {
    props::ALL.iter().copied().find(|p| p.id == id)
}

/// entry point for the libFuzzer target: bytes -> tape -> check; aborts on a violation
pub fn fuzz_one(prop: &'static Prop, tier: Tier, bytes: &[u8], known: &[Known]) -> Option<Failure> {
    let words = tape::tape_from_bytes(bytes);
    let mut ctx = Ctx::new(tier, false);
    match run_case(prop, &words, &mut ctx) {
        CaseOutcome::Pass => None,
        CaseOutcome::HarnessError(e) => Some(Failure {
            words,
            sub_check: "HARNESS-ERROR".into(),
            message: e,
            dump: String::new(),
            origin: "fuzz".into(),
        }),
        CaseOutcome::Violation(v) => {
            if known.iter().any(|k| {
                k.property == prop.id
                    && (k.sub_check.is_empty() || k.sub_check == v.sub_check)
                    && v.message.contains(&k.signature)
            }) {
                return None;
            }
            Some(Failure {
                words,
                sub_check: v.sub_check,
                message: v.message,
                dump: v.dump,
                origin: "fuzz".into(),
            })
        }
    }
}
