//! The runner: proptest generates (and shrinks) choice tapes, the property's check function
//! decodes a tape into a case and evaluates the oracle.  Fixed work (a number of cases), 16
//! seeded workers, evidence, replay files, exit codes.

use crate::tape::{tape_from_str, tape_to_string, Tape};
use proptest::strategy::{Strategy, ValueTree};
use proptest::test_runner::{Config, RngAlgorithm, TestRng, TestRunner};
use std::cell::RefCell;
use std::collections::{BTreeMap, HashSet};
use std::panic::{catch_unwind, AssertUnwindSafe};
use std::path::{Path, PathBuf};
use std::time::Instant;

// ------------------------------------------------------------------------------------------
// tiers and sizes

#[derive(Clone, Copy, PartialEq, Eq, Debug)]
pub enum Tier {
    Quick,
    Thorough,
}

impl Tier {
    pub fn name(self) -> &'static str {
        match self {
            Tier::Quick => "quick",
            Tier::Thorough => "thorough",
        }
    }
}

/// size classes of generated structures
#[derive(Clone, Copy, Debug)]
pub struct Sizes {
    pub nodes: usize,
    pub edges: usize,
    pub arity: usize,
    pub boundary: usize,
    pub node_labels: usize,
    pub edge_labels: usize,
    pub steps: usize,
}

impl Sizes {
    /// The sizes of a medium case.  `t` is the threshold the case aims at (17 .. 1030: just above
    /// the sizes at which implementations tend to change behaviour - inline buffers of 16 / 32 /
    /// 64 elements, 64-bit masks, u8 counters, blocked loops of 256) and `profile` says which
    /// dimension is blown up to it while the others stay small.
    pub fn medium(&self, t: usize, profile: usize) -> Sizes {
        let mut s = *self;
        match profile {
            0 => {
                s.nodes = t;
                s.edges = t;
                s.arity = self.arity + 1;
                s.boundary = self.boundary * 2;
            }
            1 => {
                s.nodes = t;
                s.arity = t;
            }
            2 => {
                s.nodes = t;
                s.boundary = t;
            }
            3 => s.edges = t,
            4 => s.nodes = t,
            6 => {
                // many distinct labels
                s.nodes = t;
                s.edges = self.edges * 4;
                s.node_labels = t;
                s.edge_labels = t.min(70);
            }
            _ => {
                s.nodes = self.nodes * 8;
                s.edges = self.edges * 8;
                s.arity = self.arity + 3;
                s.boundary = self.boundary * 5;
            }
        }
        s.steps = self.steps * 4;
        s
    }
    pub fn of(tier: Tier) -> Sizes {
        match tier {
            Tier::Quick => Sizes {
                nodes: 6,
                edges: 5,
                arity: 3,
                boundary: 4,
                node_labels: 3,
                edge_labels: 3,
                steps: 25,
            },
            Tier::Thorough => Sizes {
                nodes: 12,
                edges: 8,
                arity: 5,
                boundary: 6,
                node_labels: 3,
                edge_labels: 3,
                steps: 80,
            },
        }
    }
}

// ------------------------------------------------------------------------------------------
// per-case context

pub struct Violation {
    pub sub_check: String,
    pub message: String,
    pub dump: String,
}

pub type CheckResult = Result<(), Violation>;

pub struct Ctx {
    pub tier: Tier,
    pub sizes: Sizes,
    /// this is a medium-size case (see `tape::is_medium`); length parameters that a check derives
    /// itself go through `mlen()` / `vb()`
    pub medium: bool,
    /// threshold and profile of a medium case (see `Sizes::medium`)
    pub medium_t: usize,
    pub medium_profile: usize,
    /// number of choices the case consumed (set by `run_case`); a deterministic measure of its cost
    pub consumed: usize,
    /// true in the release (non overflow-checking) build
    pub release_build: bool,
    pub want_sample: bool,
    pub classes: Vec<&'static str>,
    pub sub_checks: Vec<&'static str>,
    pub nontrivial_key: Option<u64>,
    pub sample: Option<String>,
    pub discard: bool,
    pub inconclusive: bool,
    /// lazily built description of the case, used in violation dumps
    pub dump: String,
}

impl Ctx {
    pub fn new(tier: Tier, want_sample: bool) -> Ctx {
        Ctx {
            tier,
            sizes: Sizes::of(tier),
            medium: false,
            medium_t: 0,
            medium_profile: 0,
            consumed: 0,
            release_build: !cfg!(debug_assertions),
            want_sample,
            classes: Vec::new(),
            sub_checks: Vec::new(),
            nontrivial_key: None,
            sample: None,
            discard: false,
            inconclusive: false,
            dump: String::new(),
        }
    }
    /// a property whose cost grows faster than linearly with the diagram limits its medium cases
    pub fn cap_medium(&mut self, max_t: usize) {
        if self.medium && self.medium_t > max_t {
            self.medium_t = max_t;
            self.sizes = Sizes::of(self.tier).medium(max_t, self.medium_profile);
        }
    }
    /// length parameter of a check that does not use `sizes`: the threshold in a medium case
    pub fn mlen(&self, base: usize) -> usize {
        if self.medium {
            self.medium_t + 4
        } else {
            base
        }
    }
    /// bound on generated *values* (array entries, codomain sizes): raised in half of the medium cases
    pub fn vb(&self, base: usize) -> usize {
        if self.medium && self.medium_profile % 2 == 1 {
            self.medium_t + 3
        } else {
            base
        }
    }
    #[inline]
    pub fn class(&mut self, c: &'static str) {
        self.classes.push(c);
    }
    #[inline]
    pub fn class_if(&mut self, cond: bool, c: &'static str) {
        if cond {
            self.classes.push(c);
        }
    }
    /// record that an oracle was evaluated
    #[inline]
    pub fn sub(&mut self, c: &'static str) {
        self.sub_checks.push(c);
    }
    /// mark the case non-trivial by the property's rule; `key` identifies the case
    pub fn nontrivial<H: std::hash::Hash>(&mut self, key: &H) {
        self.nontrivial_key = Some(hash64(key));
    }
    pub fn set_dump(&mut self, s: String) {
        self.dump = s;
    }
    pub fn fail(&self, sub_check: &str, message: impl Into<String>) -> Violation {
        Violation {
            sub_check: sub_check.to_string(),
            message: message.into(),
            dump: self.dump.clone(),
        }
    }
}

pub fn hash64<H: std::hash::Hash>(h: &H) -> u64 {
    use std::hash::Hasher;
    // SipHash with fixed keys: deterministic across runs and processes
    #[allow(deprecated)]
    let mut s = std::hash::SipHasher::new_with_keys(0x5eed, 0xc0ffee);
    h.hash(&mut s);
    s.finish()
}

/// `ensure!(ctx, cond, "sub_check", "format", args...)`
#[macro_export]
macro_rules! ensure {
    ($ctx:expr, $cond:expr, $sub:expr, $($arg:tt)*) => {
        if !($cond) {
            return Err($ctx.fail($sub, format!($($arg)*)));
        }
    };
}

// ------------------------------------------------------------------------------------------
// property registry entry

pub struct Prop {
    pub id: &'static str,
    pub title: &'static str,
    pub check: fn(&mut Tape, &mut Ctx) -> CheckResult,
    /// maximal tape length handed to the check (quick, thorough)
    pub max_tape: (usize, usize),
    /// number of generated cases (quick, thorough)
    pub cases: (u64, u64),
    /// run half of the cases in the plain release build too
    pub both_profiles: bool,
    pub rule: &'static str,
    pub assumptions: &'static [&'static str],
    /// hand-written regression cases (independent of the tape layout), run in the replay tier
    pub fixed: Option<fn(&mut Ctx) -> CheckResult>,
    /// large structured cases (10^5..10^6 elements), run in a child process on its main thread so
    /// that a stack overflow or abort of the library shows up as a dead child, not a dead run
    pub scale: Option<fn(&mut Ctx) -> CheckResult>,
}

// ------------------------------------------------------------------------------------------
// panic capture

#[derive(Clone, Debug)]
pub struct PanicInfo {
    pub message: String,
    pub location: String,
    pub in_lib: bool,
}

thread_local! {
    static LAST_PANIC: RefCell<Option<PanicInfo>> = const { RefCell::new(None) };
    /// > 0 while inside an explicit `lib()` fence: the panic is an expected outcome and needs no
    /// classification (and no backtrace)
    static FENCE_DEPTH: std::cell::Cell<u32> = const { std::cell::Cell::new(0) };
}

/// Some(true): the library under test, Some(false): harness code, None: undecided (std, a
/// dependency, or the harness's array backend, which only does what its caller asked)
fn classify_location(file: &str) -> Option<bool> {
    if file.ends_with("advkind.rs") || file.ends_with("src/engine.rs") {
        return None;
    }
    if file.starts_with("/rustc/") || file.contains("/.cargo/") || file.contains("/library/") {
        return None;
    }
    if file.contains("harness/src/") || file.starts_with("src/") || file.starts_with("./src/") || file.contains("/fuzz_targets/") {
        return Some(false);
    }
    // anything else is the path dependency: the library, wherever its sources live
    Some(true)
}

pub fn install_panic_hook() {
    std::panic::set_hook(Box::new(|info| {
        let message = if let Some(s) = info.payload().downcast_ref::<&str>() {
            s.to_string()
        } else if let Some(s) = info.payload().downcast_ref::<String>() {
            s.clone()
        } else {
            "<non-string panic payload>".to_string()
        };
        let (location, file) = match info.location() {
            Some(l) => (format!("{}:{}", l.file(), l.line()), l.file().to_string()),
            None => ("<unknown>".to_string(), String::new()),
        };
        let fenced = FENCE_DEPTH.with(|d| d.get() > 0);
        let in_lib = match if fenced { Some(true) } else { classify_location(&file) } {
            Some(b) => b,
            None => {
                // a panic raised inside std/core: decide by the innermost crate frame
                // innermost frame that belongs to the library or to the harness proper (frames of
                // the harness's array backend are skipped: it only does what its caller asked)
                let bt = std::backtrace::Backtrace::force_capture().to_string();
                if std::env::var("OHV_DEBUG_BT").is_ok() {
                    eprintln!("{bt}");
                }
                let mut verdict = false;
                // frames are printed innermost first, each with an "at <file>:<line>" line
                for line in bt.lines() {
                    let l = line.trim_start();
                    let Some(path) = l.strip_prefix("at ") else { continue };
                    match classify_location(path.rsplit_once(':').map(|x| x.0).unwrap_or(path).rsplit_once(':').map(|x| x.0).unwrap_or(path)) {
                        None => continue,
                        Some(b) => {
                            verdict = b;
                            break;
                        }
                    }
                }
                verdict
            }
        };
        LAST_PANIC.with(|p| {
            *p.borrow_mut() = Some(PanicInfo {
                message,
                location,
                in_lib,
            })
        });
    }));
}

fn take_panic() -> PanicInfo {
    LAST_PANIC
        .with(|p| p.borrow_mut().take())
        .unwrap_or(PanicInfo {
            message: "<panic info missing>".into(),
            location: "<unknown>".into(),
            in_lib: false,
        })
}

/// Fence around a library call whose panic is an *expected or tolerated* outcome.
pub fn lib<T>(f: impl FnOnce() -> T) -> Result<T, PanicInfo> {
    FENCE_DEPTH.with(|d| d.set(d.get() + 1));
    let r = catch_unwind(AssertUnwindSafe(f));
    FENCE_DEPTH.with(|d| d.set(d.get() - 1));
    match r {
        Ok(v) => Ok(v),
        Err(_) => Err(take_panic()),
    }
}

pub enum CaseOutcome {
    Pass,
    Violation(Violation),
    HarnessError(String),
}

/// run one case; panics inside the library (anywhere below the check) are violations
/// ("the operation did not return"), panics in harness code are harness errors.
pub fn run_case(prop: &Prop, words: &[u32], ctx: &mut Ctx) -> CaseOutcome {
    let medium = crate::tape::is_medium(words);
    let mut tape = if medium {
        const T: [usize; 10] = [17, 33, 34, 40, 65, 70, 130, 260, 520, 1030];
        ctx.medium = true;
        ctx.medium_profile = words.get(2).copied().unwrap_or(0) as usize % 7;
        ctx.medium_t = T[words.get(1).copied().unwrap_or(0) as usize % 10];
        // the two largest thresholds only where a single dimension grows
        if matches!(ctx.medium_profile, 0 | 5 | 6) {
            ctx.medium_t = ctx.medium_t.min(260);
        }
        ctx.sizes = ctx.sizes.medium(ctx.medium_t, ctx.medium_profile);
        ctx.class("medium-size");
        Tape::extended(words)
    } else {
        Tape::new(words)
    };
    let r = catch_unwind(AssertUnwindSafe(|| (prop.check)(&mut tape, ctx)));
    ctx.consumed = tape.consumed();
    if !medium && tape.consumed() > words.len() {
        // the decoder wanted more choices than the tape had: the remainder was built minimally
        ctx.class("tape-exhausted");
    }
    outcome_of(r, ctx)
}

fn outcome_of(r: std::thread::Result<CheckResult>, ctx: &mut Ctx) -> CaseOutcome {
    match r {
        Ok(Ok(())) => CaseOutcome::Pass,
        Ok(Err(v)) => CaseOutcome::Violation(v),
        Err(_) => {
            let p = take_panic();
            if let Some(rest) = p.message.strip_prefix(crate::functor_model::LIB_VIOLATION) {
                let (sub, text) = rest.split_once(':').unwrap_or(("no-panic", rest));
                CaseOutcome::Violation(Violation {
                    sub_check: sub.trim().to_string(),
                    message: text.trim().to_string(),
                    dump: ctx.dump.clone(),
                })
            } else if p.in_lib {
                CaseOutcome::Violation(Violation {
                    sub_check: "no-panic".into(),
                    message: format!(
                        "library panicked on a legal input: {} at {}",
                        p.message, p.location
                    ),
                    dump: ctx.dump.clone(),
                })
            } else {
                CaseOutcome::HarnessError(format!(
                    "panic in harness code: {} at {}\ncase: {}",
                    p.message, p.location, ctx.dump
                ))
            }
        }
    }
}

// ------------------------------------------------------------------------------------------
// known findings

#[derive(Clone, Debug)]
pub struct Known {
    pub property: String,
    pub sub_check: String,
    pub signature: String,
    pub text: String,
}

pub fn load_known(verif_dir: &Path) -> Vec<Known> {
    let mut out = Vec::new();
    let Ok(s) = std::fs::read_to_string(verif_dir.join("known-findings.txt")) else {
        return out;
    };
    for line in s.lines() {
        let line = line.trim();
        let Some(rest) = line.strip_prefix("known:") else {
            continue;
        };
        // known: property=<ID> sub_check=<name> signature=<substring of message> :: <text>
        let (spec, text) = match rest.split_once("::") {
            Some((a, b)) => (a, b.trim().to_string()),
            None => (rest, String::new()),
        };
        let mut property = String::new();
        let mut sub_check = String::new();
        let mut signature = String::new();
        let spec = spec.trim();
        if let Some(i) = spec.find("signature=") {
            signature = spec[i + "signature=".len()..].trim().to_string();
            for tok in spec[..i].split_whitespace() {
                if let Some(v) = tok.strip_prefix("property=") {
                    property = v.to_string();
                } else if let Some(v) = tok.strip_prefix("sub_check=") {
                    sub_check = v.to_string();
                }
            }
        }
        if !property.is_empty() && !signature.is_empty() {
            out.push(Known {
                property,
                sub_check,
                signature,
                text,
            });
        }
    }
    out
}

fn match_known<'a>(known: &'a [Known], prop: &str, v: &Violation) -> Option<&'a Known> {
    known.iter().find(|k| {
        k.property == prop
            && (k.sub_check.is_empty() || k.sub_check == v.sub_check)
            && v.message.contains(&k.signature)
    })
}

// ------------------------------------------------------------------------------------------
// statistics

#[derive(Default, Clone, serde::Serialize, serde::Deserialize)]
pub struct Stats {
    pub evaluations: u64,
    pub discards: u64,
    pub inconclusive: u64,
    pub known_hits: BTreeMap<String, u64>,
    pub nontrivial: HashSet<u64>,
    pub classes: BTreeMap<String, u64>,
    pub sub_checks: BTreeMap<String, u64>,
    pub samples: Vec<String>,
    pub failure: Option<Failure>,
    pub harness_error: Option<String>,
    pub release_evaluations: u64,
}

#[derive(Clone, serde::Serialize, serde::Deserialize)]
pub struct Failure {
    pub words: Vec<u32>,
    pub sub_check: String,
    pub message: String,
    pub dump: String,
    pub origin: String,
}

impl Stats {
    pub fn merge(&mut self, o: Stats) {
        self.evaluations += o.evaluations;
        self.discards += o.discards;
        self.inconclusive += o.inconclusive;
        self.release_evaluations += o.release_evaluations;
        for (k, v) in o.known_hits {
            *self.known_hits.entry(k).or_default() += v;
        }
        self.nontrivial.extend(o.nontrivial);
        for (k, v) in o.classes {
            *self.classes.entry(k).or_default() += v;
        }
        for (k, v) in o.sub_checks {
            *self.sub_checks.entry(k).or_default() += v;
        }
        for s in o.samples {
            if self.samples.len() < 4 {
                self.samples.push(s);
            }
        }
        if self.failure.is_none() {
            self.failure = o.failure;
        }
        if self.harness_error.is_none() {
            self.harness_error = o.harness_error;
        }
    }

    fn absorb(&mut self, ctx: &mut Ctx) {
        self.evaluations += 1;
        if ctx.release_build {
            self.release_evaluations += 1;
        }
        if ctx.discard {
            self.discards += 1;
        }
        if ctx.inconclusive {
            self.inconclusive += 1;
        }
        for c in ctx.classes.drain(..) {
            *self.classes.entry(c.to_string()).or_default() += 1;
        }
        for c in ctx.sub_checks.drain(..) {
            *self.sub_checks.entry(c.to_string()).or_default() += 1;
        }
        if let Some(k) = ctx.nontrivial_key {
            let fresh = self.nontrivial.insert(k);
            if fresh && self.samples.len() < 3 {
                if let Some(s) = ctx.sample.take() {
                    self.samples.push(s);
                } else if !ctx.dump.is_empty() {
                    self.samples.push(ctx.dump.clone());
                }
            }
        }
    }
}

// ------------------------------------------------------------------------------------------
// shrinking

thread_local! {
    /// while an ordinary failing case is being shrunk, candidates that happen to be medium cases
    /// (the class is decided by the first word, which shrinking changes) are not executed: they
    /// are not simpler, and under a defect they can cost minutes or exhaust the memory
    static SHRINK_ALLOW_MEDIUM: std::cell::Cell<bool> = const { std::cell::Cell::new(true) };
}

fn still_fails(prop: &Prop, tier: Tier, known: &[Known], words: &[u32]) -> Option<Violation> {
    if !SHRINK_ALLOW_MEDIUM.with(|c| c.get()) && crate::tape::is_medium(words) {
        return None;
    }
    let mut ctx = Ctx::new(tier, false);
    match run_case(prop, words, &mut ctx) {
        CaseOutcome::Violation(v) => {
            if match_known(known, prop.id, &v).is_some() {
                None
            } else {
                Some(v)
            }
        }
        _ => None,
    }
}

/// own post-pass after proptest's shrinking: drop unused suffix, delete chunks, zero and
/// halve words.  Bounded by a number of re-executions.
/// number of re-executions a shrinking phase may spend: 3000 for ordinary cases, fewer for cases
/// that consumed many choices (a medium case can cost a thousand times an ordinary one); a
/// function of the case alone, so that the shrunk tape stays reproducible
fn shrink_budget(consumed: usize) -> usize {
    (2_000_000 / consumed.max(1)).clamp(40, 3000)
}

fn polish(
    prop: &Prop,
    tier: Tier,
    known: &[Known],
    mut words: Vec<u32>,
    mut best: Violation,
    mut budget: usize,
) -> (Vec<u32>, Violation) {
    // 1. truncate to what the decoder consumed
    {
        let mut ctx = Ctx::new(tier, false);
        let mut tape = Tape::new(&words);
        let _ = catch_unwind(AssertUnwindSafe(|| (prop.check)(&mut tape, &mut ctx)));
        let _ = LAST_PANIC.with(|p| p.borrow_mut().take());
        let used = tape.consumed().min(words.len());
        if used < words.len() {
            let cand = words[..used].to_vec();
            if let Some(v) = still_fails(prop, tier, known, &cand) {
                words = cand;
                best = v;
            }
        }
    }
    let mut progress = true;
    while progress && budget > 0 {
        progress = false;
        // 2. chunk deletion
        let mut size = (words.len() / 2).max(1);
        while size >= 1 && budget > 0 {
            let mut i = 0;
            while i + size <= words.len() && budget > 0 {
                let mut cand = words.clone();
                cand.drain(i..i + size);
                budget -= 1;
                if let Some(v) = still_fails(prop, tier, known, &cand) {
                    words = cand;
                    best = v;
                    progress = true;
                } else {
                    i += size;
                }
            }
            if size == 1 {
                break;
            }
            size /= 2;
        }
        // 3. zero / halve words
        for i in 0..words.len() {
            if budget == 0 {
                break;
            }
            if words[i] == 0 {
                continue;
            }
            let mut cand = words.clone();
            cand[i] = 0;
            budget -= 1;
            if let Some(v) = still_fails(prop, tier, known, &cand) {
                words = cand;
                best = v;
                progress = true;
                continue;
            }
            // binary search towards the smallest failing value
            let mut lo = 0u32; // known passing (or not failing)
            let mut hi = words[i]; // known failing
            while hi - lo > 1 && budget > 0 {
                let mid = lo + (hi - lo) / 2;
                let mut cand = words.clone();
                cand[i] = mid;
                budget -= 1;
                if let Some(v) = still_fails(prop, tier, known, &cand) {
                    hi = mid;
                    best = v;
                } else {
                    lo = mid;
                }
            }
            if hi != words[i] {
                words[i] = hi;
                progress = true;
            }
        }
        // trailing zeros carry no information
        while words.last() == Some(&0) {
            words.pop();
        }
    }
    (words, best)
}

/// re-check a tape found elsewhere (fuzzer artifact); if it fails, shrink it with the own pass
pub fn shrink_failing_tape(prop: &Prop, tier: Tier, known: &[Known], words: Vec<u32>, origin: &str) -> Option<Failure> {
    // fuzzer tapes were generated with thorough sizes
    SHRINK_ALLOW_MEDIUM.with(|c| c.set(crate::tape::is_medium(&words)));
    for t in [tier, Tier::Thorough, Tier::Quick] {
        if let Some(v) = still_fails(prop, t, known, &words) {
            let cost = {
                let mut ctx = Ctx::new(t, false);
                let _ = run_case(prop, &words, &mut ctx);
                ctx.consumed
            };
            let (w, v) = polish(prop, t, known, words, v, shrink_budget(cost));
            return Some(Failure {
                words: w,
                sub_check: v.sub_check,
                message: v.message,
                dump: v.dump,
                origin: format!("{origin} (re-checked and shrunk by the engine, {} sizes)", t.name()),
            });
        }
    }
    None
}

// ------------------------------------------------------------------------------------------
// worker

fn seed_bytes(seed: u64, prop: &str, worker: u64, tier: Tier) -> [u8; 32] {
    let mut out = [0u8; 32];
    for i in 0..4u64 {
        let h = hash64(&(seed, prop, worker, tier.name(), i, cfg!(debug_assertions)));
        out[(i as usize) * 8..(i as usize + 1) * 8].copy_from_slice(&h.to_le_bytes());
    }
    out
}

/// shared by the workers of one run: medium-size cases are deferred until every worker has
/// finished its ordinary cases, and are skipped if any of them found a violation.  A defect
/// that small inputs show is then reported from a small input (cheap to run, cheap to shrink)
/// before a medium case can turn the same defect into minutes of work or an exhausted memory.
pub struct Gate {
    pub barrier: std::sync::Barrier,
    pub failed: std::sync::atomic::AtomicBool,
}

impl Gate {
    pub fn new(workers: usize) -> Gate {
        Gate { barrier: std::sync::Barrier::new(workers.max(1)), failed: std::sync::atomic::AtomicBool::new(false) }
    }
}

pub fn run_worker(
    prop: &Prop,
    tier: Tier,
    seed: u64,
    worker: u64,
    cases: u64,
    known: &[Known],
    gate: &Gate,
) -> Stats {
    use std::sync::atomic::Ordering;
    let max_tape = match tier {
        Tier::Quick => prop.max_tape.0,
        Tier::Thorough => prop.max_tape.1,
    };
    let config = Config {
        failure_persistence: None,
        ..Config::default()
    };
    let rng = TestRng::from_seed(RngAlgorithm::ChaCha, &seed_bytes(seed, prop.id, worker, tier));
    let mut runner = TestRunner::new_with_rng(config, rng);
    let strategy = proptest::collection::vec(proptest::num::u32::ANY, 0..=max_tape);
    let mut stats = Stats::default();
    let mut deferred = Vec::new();

    // one case: true = go on, false = stop this worker
    let one = |tree: &mut dyn ValueTree<Value = Vec<u32>>, stats: &mut Stats| -> bool {
        let words = tree.current();
        let mut ctx = Ctx::new(tier, worker == 0 && stats.samples.len() < 3);
        match run_case(prop, &words, &mut ctx) {
            CaseOutcome::Pass => {
                stats.absorb(&mut ctx);
                true
            }
            CaseOutcome::HarnessError(e) => {
                stats.evaluations += 1;
                stats.harness_error = Some(format!("{e}\ntape: {}", tape_to_string(&words)));
                false
            }
            CaseOutcome::Violation(v) => {
                stats.evaluations += 1;
                if let Some(k) = match_known(known, prop.id, &v) {
                    *stats.known_hits.entry(k.signature.clone()).or_default() += 1;
                    return true;
                }
                // shrink with proptest's value tree (bounded number of re-executions)
                SHRINK_ALLOW_MEDIUM.with(|c| c.set(crate::tape::is_medium(&words)));
                let mut best_words = words.clone();
                let mut best = v;
                let allowance = shrink_budget(ctx.consumed);
                let mut budget = allowance;
                if tree.simplify() {
                    loop {
                        if budget == 0 {
                            break;
                        }
                        budget -= 1;
                        let cur = tree.current();
                        match still_fails(prop, tier, known, &cur) {
                            Some(v) => {
                                best_words = cur;
                                best = v;
                                if !tree.simplify() {
                                    break;
                                }
                            }
                            None => {
                                if !tree.complicate() {
                                    break;
                                }
                            }
                        }
                    }
                }
                let (w, v) = polish(prop, tier, known, best_words, best, allowance);
                stats.failure = Some(Failure {
                    words: w,
                    sub_check: v.sub_check,
                    message: v.message,
                    dump: v.dump,
                    origin: format!("generated (worker {worker})"),
                });
                false
            }
        }
    };

    for _ in 0..cases {
        let mut tree = match strategy.new_tree(&mut runner) {
            Ok(t) => t,
            Err(e) => {
                stats.harness_error = Some(format!("proptest could not generate a tape: {e}"));
                break;
            }
        };
        if crate::tape::is_medium(&tree.current()) {
            deferred.push(tree);
            continue;
        }
        if !one(&mut tree, &mut stats) {
            break;
        }
    }
    if stats.failure.is_some() || stats.harness_error.is_some() {
        gate.failed.store(true, Ordering::SeqCst);
    }
    gate.barrier.wait();
    if !gate.failed.load(Ordering::SeqCst) {
        for mut tree in deferred {
            if !one(&mut tree, &mut stats) {
                break;
            }
        }
    }
    stats
}

// ------------------------------------------------------------------------------------------
// corpus replay

pub struct TapeFile {
    pub path: PathBuf,
    pub words: Vec<u32>,
}

pub fn read_tape_file(path: &Path) -> Option<Vec<u32>> {
    let s = std::fs::read_to_string(path).ok()?;
    for line in s.lines() {
        if let Some(rest) = line.strip_prefix("words:") {
            return tape_from_str(rest);
        }
    }
    None
}

pub fn corpus_files(verif_dir: &Path, prop: &str) -> Vec<TapeFile> {
    let dir = verif_dir.join("corpus").join(prop);
    let mut out = Vec::new();
    if let Ok(rd) = std::fs::read_dir(&dir) {
        let mut paths: Vec<PathBuf> = rd.filter_map(|e| e.ok()).map(|e| e.path()).collect();
        paths.sort();
        for p in paths {
            if p.extension().map(|e| e == "tape").unwrap_or(false) {
                if let Some(words) = read_tape_file(&p) {
                    out.push(TapeFile { path: p, words });
                }
            }
        }
    }
    out
}

pub fn write_replay(verif_dir: &Path, prop: &str, f: &Failure) -> PathBuf {
    let dir = verif_dir.join("replays");
    let _ = std::fs::create_dir_all(&dir);
    let h = hash64(&(&f.words, &f.sub_check));
    let path = dir.join(format!("{prop}-{:016x}.tape", h));
    let mut s = String::new();
    s.push_str(&format!("property: {prop}\n"));
    s.push_str(&format!("sub_check: {}\n", f.sub_check));
    s.push_str(&format!("origin: {}\n", f.origin));
    s.push_str(&format!("words: {}\n", tape_to_string(&f.words)));
    for l in f.message.lines() {
        s.push_str(&format!("# message: {l}\n"));
    }
    for l in f.dump.lines() {
        s.push_str(&format!("# case: {l}\n"));
    }
    let _ = std::fs::write(&path, s);
    path
}

// ------------------------------------------------------------------------------------------
// a whole run (this process's share)

pub struct RunConfig {
    pub tier: Tier,
    pub seed: u64,
    pub cases: u64,
    pub workers: u64,
    pub worker_offset: u64,
}

pub fn run_generated(prop: &'static Prop, cfg: &RunConfig, known: &[Known]) -> Stats {
    let per = cfg.cases / cfg.workers.max(1);
    let mut total = Stats::default();
    let gate = Gate::new(cfg.workers as usize);
    let gate = &gate;
    let results: Vec<Stats> = std::thread::scope(|s| {
        let handles: Vec<_> = (0..cfg.workers)
            .map(|w| {
                let known = known.to_vec();
                let tier = cfg.tier;
                let seed = cfg.seed;
                let off = cfg.worker_offset;
                std::thread::Builder::new()
                    .stack_size(64 << 20)
                    .spawn_scoped(s, move || run_worker(prop, tier, seed, w + off, per, &known, gate))
                    .expect("spawn worker")
            })
            .collect();
        handles
            .into_iter()
            .map(|h| {
                h.join().unwrap_or_else(|_| {
                    let mut st = Stats::default();
                    st.harness_error = Some("worker thread panicked outside a case".into());
                    st
                })
            })
            .collect()
    });
    for r in results {
        total.merge(r);
    }
    total
}

pub fn run_corpus(prop: &Prop, tier: Tier, verif_dir: &Path, known: &[Known]) -> (u64, Stats) {
    let mut stats = Stats::default();
    let files = corpus_files(verif_dir, prop.id);
    let mut n = files.len() as u64;
    if let Some(fixed) = prop.fixed {
        n += 1;
        let mut ctx = Ctx::new(tier, false);
        let r = catch_unwind(AssertUnwindSafe(|| fixed(&mut ctx)));
        match outcome_of(r, &mut ctx) {
            CaseOutcome::Pass => stats.absorb(&mut ctx),
            CaseOutcome::HarnessError(e) => {
                stats.harness_error = Some(format!("{e}\n(in the hand-written regression cases)"));
                return (n, stats);
            }
            CaseOutcome::Violation(v) => {
                stats.evaluations += 1;
                if let Some(k) = match_known(known, prop.id, &v) {
                    *stats.known_hits.entry(k.signature.clone()).or_default() += 1;
                } else {
                    stats.failure = Some(Failure {
                        words: vec![],
                        sub_check: v.sub_check,
                        message: v.message,
                        dump: v.dump,
                        origin: "hand-written regression case (fixed cases of the property)".into(),
                    });
                }
            }
        }
    }
    for f in files {
        let mut ctx = Ctx::new(tier, false);
        match run_case(prop, &f.words, &mut ctx) {
            CaseOutcome::Pass => stats.absorb(&mut ctx),
            CaseOutcome::HarnessError(e) => {
                stats.harness_error = Some(format!("{e}\nfile: {}", f.path.display()));
                break;
            }
            CaseOutcome::Violation(v) => {
                stats.evaluations += 1;
                if let Some(k) = match_known(known, prop.id, &v) {
                    *stats.known_hits.entry(k.signature.clone()).or_default() += 1;
                    continue;
                }
                if stats.failure.is_none() {
                    stats.failure = Some(Failure {
                        words: f.words.clone(),
                        sub_check: v.sub_check,
                        message: v.message,
                        dump: v.dump,
                        origin: format!("corpus file {}", f.path.display()),
                    });
                }
            }
        }
    }
    (n, stats)
}

pub fn evidence_json(
    prop: &Prop,
    tier: Tier,
    seed: u64,
    stats: &Stats,
    corpus_cases: u64,
    wall_s: f64,
    extra: serde_json::Value,
) -> serde_json::Value {
    let mut samples: Vec<serde_json::Value> = stats
        .samples
        .iter()
        .take(3)
        .map(|s| serde_json::Value::String(s.clone()))
        .collect();
    if samples.is_empty() {
        samples.push(serde_json::Value::String(
            "(no non-trivial case was generated in this run)".into(),
        ));
    }
    serde_json::json!({
        "property_id": prop.id,
        "tier": tier.name(),
        "seed": seed,
        "level": "exploration",
        "coverage": {
            "evaluations": stats.evaluations,
            "distinct_nontrivial": stats.nontrivial.len(),
            "rule": prop.rule,
            "samples": samples,
            "classes": stats.classes,
            "sub_checks": stats.sub_checks,
            "discards": stats.discards,
            "inconclusive": stats.inconclusive,
            "corpus_cases_replayed": corpus_cases,
            "release_build_evaluations": stats.release_evaluations,
            "known_finding_hits": stats.known_hits,
            "extra": extra,
        },
        "assumptions": prop.assumptions,
        "wall_s": wall_s,
        "violations": if stats.failure.is_some() { 1 } else { 0 },
    })
}

pub fn now() -> Instant {
    Instant::now()
}
