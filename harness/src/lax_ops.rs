//! conversions between the plain model and the library's lax (imperative) representation,
//! through the public `Vec` fields.
use crate::labels::{Ob, Op};
use crate::model::{Diagram, Edge, Lax};
use open_hypergraphs::lax::{Hyperedge, Hypergraph, NodeId, OpenHypergraph};

pub type LOH = OpenHypergraph<Ob, Op>;
pub type LH = Hypergraph<Ob, Op>;

pub fn ids(v: &[usize]) -> Vec<NodeId> {
    v.iter().map(|&i| NodeId(i)).collect()
}
pub fn unids(v: &[NodeId]) -> Vec<usize> {
    v.iter().map(|i| i.0).collect()
}

pub fn to_lax(l: &Lax) -> LOH {
    let mut f = LOH::empty();
    f.hypergraph.nodes = l.d.nodes.iter().map(|&x| Ob(x)).collect();
    f.hypergraph.edges = l.d.edges.iter().map(|e| Op(e.label)).collect();
    f.hypergraph.adjacency = l
        .d
        .edges
        .iter()
        .map(|e| Hyperedge {
            sources: ids(&e.src),
            targets: ids(&e.tgt),
        })
        .collect();
    f.hypergraph.quotient = (
        l.q.iter().map(|p| NodeId(p.0)).collect(),
        l.q.iter().map(|p| NodeId(p.1)).collect(),
    );
    f.sources = ids(&l.d.s);
    f.targets = ids(&l.d.t);
    f
}

pub fn to_lax_d(d: &Diagram) -> LOH {
    to_lax(&Lax {
        d: d.clone(),
        q: vec![],
    })
}

/// lax well-formedness: ids in range, one adjacency entry per edge, pending lists of equal length
pub fn from_lax(f: &LOH) -> Result<Lax, String> {
    let h = &f.hypergraph;
    let n = h.nodes.len();
    if h.edges.len() != h.adjacency.len() {
        return Err(format!(
            "{} edge labels but {} adjacency entries",
            h.edges.len(),
            h.adjacency.len()
        ));
    }
    if h.quotient.0.len() != h.quotient.1.len() {
        return Err(format!(
            "pending lists have lengths {} and {}",
            h.quotient.0.len(),
            h.quotient.1.len()
        ));
    }
    let chk = |v: &[NodeId], what: &str| -> Result<(), String> {
        for i in v {
            if i.0 >= n {
                return Err(format!("{what} references node {} >= {n}", i.0));
            }
        }
        Ok(())
    };
    chk(&f.sources, "source interface")?;
    chk(&f.targets, "target interface")?;
    chk(&h.quotient.0, "pending list (left)")?;
    chk(&h.quotient.1, "pending list (right)")?;
    let mut edges = vec![];
    for (i, (l, a)) in h.edges.iter().zip(h.adjacency.iter()).enumerate() {
        chk(&a.sources, &format!("edge {i} sources"))?;
        chk(&a.targets, &format!("edge {i} targets"))?;
        edges.push(Edge {
            label: l.0,
            src: unids(&a.sources),
            tgt: unids(&a.targets),
        });
    }
    Ok(Lax {
        d: Diagram {
            nodes: h.nodes.iter().map(|o| o.0).collect(),
            edges,
            s: unids(&f.sources),
            t: unids(&f.targets),
        },
        q: h
            .quotient
            .0
            .iter()
            .zip(h.quotient.1.iter())
            .map(|(a, b)| (a.0, b.0))
            .collect(),
    })
}
