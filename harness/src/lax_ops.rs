//! conversions between the plain model and the library's lax (imperative) representation,
//! through the public `Vec` fields.
use crate::labels::{Ob, Op};
use crate::model::{Diagram, Edge, Lax};
use open_hypergraphs::lax::{Hyperedge, Hypergraph, NodeId, OpenHypergraph};

pub type LOH = OpenHypergraph<Ob, Op>;
pub type LH = Hypergraph<Ob, Op>;

pub fn ids(v: &[usize]) -> Vec<NodeId> {
    v.iter().map(|&i| NodeId(i)).collect()
}
pub fn unids(v: &[NodeId]) -> Vec<usize> {
    v.iter().map(|i| i.0).collect()
}

pub fn to_lax(l: &Lax) -> LOH {
    let mut f = LOH::empty();
    f.hypergraph.nodes = l.d.nodes.iter().map(|&x| Ob(x)).collect();
    f.hypergraph.edges = l.d.edges.iter().map(|e| Op(e.label)).collect();
    f.hypergraph.adjacency = l
        .d
        .edges
        .iter()
        .map(|e| Hyperedge {
            sources: ids(&e.src),
            targets: ids(&e.tgt),
        })
        .collect();
    f.hypergraph.quotient = (
        l.q.iter().map(|p| NodeId(p.0)).collect(),
        l.q.iter().map(|p| NodeId(p.1)).collect(),
    );
    f.sources = ids(&l.d.s);
    f.targets = ids(&l.d.t);
    f
}

/// the same diagram built through the public builder calls (new_node, new_edge, unify) instead
/// of writing the public fields; the pending pairs are whatever `unify` records for them
pub fn to_lax_api(l: &Lax) -> LOH {
    let mut f = LOH::empty();
    for &x in &l.d.nodes {
        f.new_node(Ob(x));
    }
    for e in &l.d.edges {
        f.new_edge(Op(e.label), Hyperedge { sources: ids(&e.src), targets: ids(&e.tgt) });
    }
    for &(a, b) in &l.q {
        f.unify(NodeId(a), NodeId(b));
    }
    f.sources = ids(&l.d.s);
    f.targets = ids(&l.d.t);
    f
}

pub fn to_lax_d(d: &Diagram) -> LOH {
    to_lax(&Lax {
        d: d.clone(),
        q: vec![],
    })
}

/// lax well-formedness: ids in range, one adjacency entry per edge, pending lists of equal length
pub fn from_lax(f: &LOH) -> Result<Lax, String> {
    let h = &f.hypergraph;
    let n = h.nodes.len();
    if h.edges.len() != h.adjacency.len() {
        return Err(format!(
            "{} edge labels but {} adjacency entries",
            h.edges.len(),
            h.adjacency.len()
        ));
    }
    if h.quotient.0.len() != h.quotient.1.len() {
        return Err(format!(
            "pending lists have lengths {} and {}",
            h.quotient.0.len(),
            h.quotient.1.len()
        ));
    }
    let chk = |v: &[NodeId], what: &str| -> Result<(), String> {
        for i in v {
            if i.0 >= n {
                return Err(format!("{what} references node {} >= {n}", i.0));
            }
        }
        Ok(())
    };
    chk(&f.sources, "source interface")?;
    chk(&f.targets, "target interface")?;
    chk(&h.quotient.0, "pending list (left)")?;
    chk(&h.quotient.1, "pending list (right)")?;
    let mut edges = vec![];
    for (i, (l, a)) in h.edges.iter().zip(h.adjacency.iter()).enumerate() {
        chk(&a.sources, &format!("edge {i} sources"))?;
        chk(&a.targets, &format!("edge {i} targets"))?;
        edges.push(Edge {
            label: l.0,
            src: unids(&a.sources),
            tgt: unids(&a.targets),
        });
    }
    Ok(Lax {
        d: Diagram {
            nodes: h.nodes.iter().map(|o| o.0).collect(),
            edges,
            s: unids(&f.sources),
            t: unids(&f.targets),
        },
        q: h
            .quotient
            .0
            .iter()
            .zip(h.quotient.1.iter())
            .map(|(a, b)| (a.0, b.0))
            .collect(),
    })
}

// ------------------------------------------------------------------------------------------
// lax functors and optics given by tables

use crate::functor_model::{OpticTable, TableFunctor};
use crate::labels::unobs;
use open_hypergraphs::lax::functor::{dyn_functor, Functor};

/// lax functor whose images are pending-free
#[derive(Clone)]
pub struct LFunctor(pub TableFunctor);

impl Functor<Ob, Op, Ob, Op> for LFunctor {
    fn map_object(&self, o: &Ob) -> impl ExactSizeIterator<Item = Ob> {
        self.0.object(o.0).iter().map(|&l| Ob(l)).collect::<Vec<_>>().into_iter()
    }
    fn map_operation(&self, a: &Op, source: &[Ob], target: &[Ob]) -> LOH {
        to_lax_d(&self.0.operation_cb(a.0, &unobs(source), &unobs(target)))
    }
    fn map_arrow(&self, f: &LOH) -> LOH {
        dyn_functor::define_map_arrow(self, f)
    }
}

/// lax functor whose images carry label-consistent pending pairs (given per operation key)
#[derive(Clone)]
pub struct LFunctorPending(pub TableFunctor, pub std::collections::BTreeMap<crate::functor_model::OpKey, Vec<(usize, usize)>>);

impl Functor<Ob, Op, Ob, Op> for LFunctorPending {
    fn map_object(&self, o: &Ob) -> impl ExactSizeIterator<Item = Ob> {
        self.0.object(o.0).iter().map(|&l| Ob(l)).collect::<Vec<_>>().into_iter()
    }
    fn map_operation(&self, a: &Op, source: &[Ob], target: &[Ob]) -> LOH {
        let key = (a.0, unobs(source), unobs(target));
        let d = self.0.operation_cb(a.0, &key.1, &key.2);
        let q = self.1.get(&key).cloned().unwrap_or_default();
        to_lax(&Lax { d, q })
    }
    fn map_arrow(&self, f: &LOH) -> LOH {
        dyn_functor::define_map_arrow(self, f)
    }
}

/// lax optic whose forward / reverse generator images carry label-consistent pending pairs
#[derive(Clone)]
pub struct LOpticPending(
    pub OpticTable,
    pub std::collections::BTreeMap<crate::functor_model::OpKey, Vec<(usize, usize)>>,
    pub std::collections::BTreeMap<crate::functor_model::OpKey, Vec<(usize, usize)>>,
);

impl open_hypergraphs::lax::optic::Optic<Ob, Op, Ob, Op> for LOpticPending {
    fn fwd_object(&self, o: &Ob) -> Vec<Ob> {
        self.0.fwd.object(o.0).iter().map(|&l| Ob(l)).collect()
    }
    fn fwd_operation(&self, a: &Op, source: &[Ob], target: &[Ob]) -> LOH {
        let key = (a.0, unobs(source), unobs(target));
        let d = self.0.fwd.operation_cb(a.0, &key.1, &key.2);
        to_lax(&Lax { d, q: self.1.get(&key).cloned().unwrap_or_default() })
    }
    fn rev_object(&self, o: &Ob) -> Vec<Ob> {
        self.0.rev.object(o.0).iter().map(|&l| Ob(l)).collect()
    }
    fn rev_operation(&self, a: &Op, source: &[Ob], target: &[Ob]) -> LOH {
        let key = (a.0, unobs(source), unobs(target));
        let d = self.0.rev.operation_cb(a.0, &key.1, &key.2);
        to_lax(&Lax { d, q: self.2.get(&key).cloned().unwrap_or_default() })
    }
    fn residual(&self, a: &Op) -> Vec<Ob> {
        self.0.residual.iter().find(|(k, _)| k.0 == a.0).map(|(_, v)| v.iter().map(|&l| Ob(l)).collect()).unwrap_or_default()
    }
}

#[derive(Clone)]
pub struct LOptic(pub OpticTable);

impl open_hypergraphs::lax::optic::Optic<Ob, Op, Ob, Op> for LOptic {
    fn fwd_object(&self, o: &Ob) -> Vec<Ob> {
        self.0.fwd.object(o.0).iter().map(|&l| Ob(l)).collect()
    }
    fn fwd_operation(&self, a: &Op, source: &[Ob], target: &[Ob]) -> LOH {
        to_lax_d(&self.0.fwd.operation_cb(a.0, &unobs(source), &unobs(target)))
    }
    fn rev_object(&self, o: &Ob) -> Vec<Ob> {
        self.0.rev.object(o.0).iter().map(|&l| Ob(l)).collect()
    }
    fn rev_operation(&self, a: &Op, source: &[Ob], target: &[Ob]) -> LOH {
        to_lax_d(&self.0.rev.operation_cb(a.0, &unobs(source), &unobs(target)))
    }
    fn residual(&self, a: &Op) -> Vec<Ob> {
        // the lax trait keys residuals by the operation label only
        self.0
            .residual
            .iter()
            .find(|(k, _)| k.0 == a.0)
            .map(|(_, v)| v.iter().map(|&l| Ob(l)).collect())
            .unwrap_or_default()
    }
}
