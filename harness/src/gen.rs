//! Generators: constructive (no rejection loops), driven only by the choice tape.

use crate::engine::{Ctx, Sizes};
use crate::functor_model::{OpKey, OpticTable, TableFunctor};
use crate::model::{Diagram, Edge, Lax};
use crate::tape::Tape;
use std::collections::{BTreeMap, BTreeSet};

/// label alphabets (few labels on purpose: wrong gluings must be caught by structure)
#[derive(Clone, Copy, Debug)]
pub struct Alpha {
    pub nl: usize,
    pub el: usize,
}

pub fn alpha(t: &mut Tape, sz: &Sizes) -> Alpha {
    Alpha {
        nl: 1 + t.choice(sz.node_labels),
        el: 1 + t.choice(sz.edge_labels),
    }
}

/// how the node of one incidence / interface position is drawn
fn node_list(t: &mut Tape, n: usize, len: usize) -> Vec<usize> {
    if n == 0 || len == 0 {
        return vec![];
    }
    match t.weighted(&[5, 2, 1, 1]) {
        // uniform with repetition
        0 => (0..len).map(|_| t.choice(n)).collect(),
        // one node repeated
        1 => {
            let v = t.choice(n);
            vec![v; len]
        }
        // two nodes alternating (a,b,a,...)
        2 => {
            let a = t.choice(n);
            let b = t.choice(n);
            (0..len).map(|i| if i % 2 == 0 { a } else { b }).collect()
        }
        // a run of consecutive nodes
        _ => {
            let a = t.choice(n);
            (0..len).map(|i| (a + i) % n).collect()
        }
    }
}

/// an arbitrary well-formed diagram
pub fn diagram(t: &mut Tape, sz: &Sizes, al: Alpha, ctx: &mut Ctx) -> Diagram {
    let shape = t.weighted(&[10, 1, 1, 2, 2, 1]);
    let n = match shape {
        1 => 0,
        _ => t.range(0, sz.nodes),
    };
    let nodes: Vec<u32> = (0..n).map(|_| t.choice(al.nl) as u32).collect();
    let ne = match shape {
        2 => 0,
        _ => t.range(0, sz.edges),
    };
    let mut edges = Vec::with_capacity(ne);
    for _ in 0..ne {
        let label = t.choice(al.el) as u32;
        let (sa, ta) = if n == 0 {
            (0, 0)
        } else {
            (t.range(0, sz.arity), t.range(0, sz.arity))
        };
        edges.push(Edge {
            label,
            src: node_list(t, n, sa),
            tgt: node_list(t, n, ta),
        });
    }
    match shape {
        // parallel bundle: two edges connected through the same node(s) many times
        3 if n > 0 && edges.len() >= 2 => {
            let a = t.choice(n);
            let b = t.choice(n);
            let k = t.range(1, 2 * sz.arity + 2);
            let i = t.choice(edges.len());
            let mut j = t.choice(edges.len());
            if i == j {
                j = (j + 1) % edges.len();
            }
            edges[i].tgt = vec![a, b];
            edges[j].src = (0..k).map(|x| if x % 2 == 0 { a } else { b }).collect();
            ctx.class("gen:bundle");
        }
        // a cycle with a tail: e0 -> e1 -> ... -> e0, last edge also feeds a fresh chain
        4 if n > 0 && edges.len() >= 2 => {
            let k = t.range(1, edges.len());
            let vs: Vec<usize> = (0..k).map(|_| t.choice(n)).collect();
            for i in 0..k {
                edges[i].tgt.push(vs[i]);
                edges[(i + 1) % k].src.push(vs[i]);
            }
            ctx.class("gen:cycle");
        }
        // hub: every edge touches node 0
        5 if n > 0 => {
            for e in edges.iter_mut() {
                if t.chance(1, 2) {
                    e.src.push(0);
                } else {
                    e.tgt.push(0);
                }
            }
            ctx.class("gen:hub");
        }
        _ => {}
    }
    let (sl, tl) = if n == 0 {
        (0, 0)
    } else {
        (t.range(0, sz.boundary), t.range(0, sz.boundary))
    };
    let s = node_list(t, n, sl);
    let tt = match t.weighted(&[4, 1]) {
        // target interface shares nodes with the source interface
        1 if !s.is_empty() => (0..tl).map(|i| s[(i + 1) % s.len()]).collect(),
        _ => node_list(t, n, tl),
    };
    Diagram {
        nodes,
        edges,
        s,
        t: tt,
    }
}

/// classify the shapes the properties name
pub fn classify(d: &Diagram, ctx: &mut Ctx) {
    let n = d.nodes.len();
    ctx.class_if(n == 0, "empty-diagram");
    ctx.class_if(d.edges.is_empty(), "no-edges");
    ctx.class_if(d.s.is_empty() || d.t.is_empty(), "empty-boundary");
    let dup = |v: &Vec<usize>| {
        let mut x = v.clone();
        x.sort_unstable();
        x.windows(2).any(|w| w[0] == w[1])
    };
    ctx.class_if(dup(&d.s) || dup(&d.t), "boundary-node-repeated");
    ctx.class_if(d.s.iter().any(|v| d.t.contains(v)), "boundary-node-shared");
    ctx.class_if(
        d.edges.iter().any(|e| e.src.is_empty() && e.tgt.is_empty()),
        "zero-arity-edge",
    );
    ctx.class_if(
        d.edges.iter().any(|e| dup(&e.src) || dup(&e.tgt)),
        "repeated-incidence",
    );
    let mut touched = vec![false; n];
    for e in &d.edges {
        for &v in e.src.iter().chain(&e.tgt) {
            touched[v] = true;
        }
    }
    let mut on_if = vec![false; n];
    for &v in d.s.iter().chain(&d.t) {
        on_if[v] = true;
    }
    ctx.class_if(
        (0..n).any(|v| !touched[v] && !on_if[v]),
        "isolated-node",
    );
}

/// re-attach the source interface of `d` so that it has type `ty` (reusing nodes of the right
/// label or creating new ones)
pub fn with_source_type(t: &mut Tape, d: &mut Diagram, ty: &[u32]) {
    d.s = attach(t, d, ty);
}
pub fn with_target_type(t: &mut Tape, d: &mut Diagram, ty: &[u32]) {
    d.t = attach(t, d, ty);
}

fn attach(t: &mut Tape, d: &mut Diagram, ty: &[u32]) -> Vec<usize> {
    let mut out = Vec::with_capacity(ty.len());
    for &l in ty {
        let cands: Vec<usize> = (0..d.nodes.len()).filter(|&v| d.nodes[v] == l).collect();
        // word 0 => fresh node (the simple, monogamous-friendly choice)
        if cands.is_empty() || !t.chance(2, 3) {
            d.nodes.push(l);
            out.push(d.nodes.len() - 1);
        } else {
            out.push(cands[t.choice(cands.len())]);
        }
    }
    out
}

/// random inner diagram with prescribed boundary types
pub fn diagram_with_boundary(
    t: &mut Tape,
    sz: &Sizes,
    al: Alpha,
    src: &[u32],
    tgt: &[u32],
    ctx: &mut Ctx,
) -> Diagram {
    let mut d = diagram(t, sz, al, ctx);
    with_source_type(t, &mut d, src);
    with_target_type(t, &mut d, tgt);
    d
}

/// a chain f_1 ... f_k with type(target f_i) == type(source f_{i+1}) by construction
pub fn composable(t: &mut Tape, sz: &Sizes, al: Alpha, k: usize, ctx: &mut Ctx) -> Vec<Diagram> {
    let mut out: Vec<Diagram> = Vec::with_capacity(k);
    for i in 0..k {
        let mut d = diagram(t, sz, al, ctx);
        if i > 0 {
            let ty = out[i - 1].target_type();
            with_source_type(t, &mut d, &ty);
        }
        out.push(d);
    }
    out
}

/// perturb `g` so that its source type differs from `ty` (returns false if impossible)
pub fn mismatch_source(t: &mut Tape, g: &mut Diagram, ty: &[u32], al: Alpha) -> bool {
    match t.choice(3) {
        // one more leg
        0 => {
            let l = t.choice(al.nl) as u32;
            g.nodes.push(l);
            g.s.push(g.nodes.len() - 1);
            true
        }
        // one leg fewer
        1 if !g.s.is_empty() => {
            let i = t.choice(g.s.len());
            g.s.remove(i);
            true
        }
        // one label changed
        _ => {
            if g.s.is_empty() || al.nl < 2 {
                let l = t.choice(al.nl) as u32;
                g.nodes.push(l);
                g.s.push(g.nodes.len() - 1);
                return true;
            }
            let i = t.choice(g.s.len());
            let new = (ty[i] + 1 + t.choice(al.nl - 1) as u32) % al.nl as u32;
            g.nodes.push(new);
            g.s[i] = g.nodes.len() - 1;
            true
        }
    }
}

/// lax diagram: diagram + pending pairs; `consistent` => only equal-labelled nodes are paired
pub fn lax(t: &mut Tape, sz: &Sizes, al: Alpha, consistent: bool, ctx: &mut Ctx) -> Lax {
    let d = diagram(t, sz, al, ctx);
    let q = pending_pairs(t, &d, sz.nodes, consistent);
    Lax { d, q }
}

pub fn pending_pairs(t: &mut Tape, d: &Diagram, max: usize, consistent: bool) -> Vec<(usize, usize)> {
    let n = d.nodes.len();
    if n == 0 {
        return vec![];
    }
    let k = t.range(0, max);
    let mut q = Vec::with_capacity(k);
    for _ in 0..k {
        let a = t.choice(n);
        let b = match t.weighted(&[4, 1, 1]) {
            1 => a,           // self pair
            2 => (a + 1) % n, // chain-ish
            _ => t.choice(n),
        };
        if consistent && d.nodes[a] != d.nodes[b] {
            // pick an equal-labelled partner instead (a itself always qualifies)
            let cands: Vec<usize> = (0..n).filter(|&v| d.nodes[v] == d.nodes[a]).collect();
            q.push((a, cands[t.choice(cands.len())]));
        } else {
            q.push((a, b));
        }
    }
    q
}

// ------------------------------------------------------------------------------------------
// functors

pub fn op_keys(ds: &[&Diagram]) -> BTreeSet<OpKey> {
    let mut keys = BTreeSet::new();
    for d in ds {
        for e in &d.edges {
            keys.insert((
                e.label,
                e.src.iter().map(|&v| d.nodes[v]).collect(),
                e.tgt.iter().map(|&v| d.nodes[v]).collect(),
            ));
        }
    }
    keys
}

pub fn small_sizes() -> Sizes {
    Sizes {
        nodes: 3,
        edges: 2,
        arity: 2,
        boundary: 2,
        node_labels: 3,
        edge_labels: 3,
        steps: 0,
    }
}

/// object map: label -> list of length 0..=3 (1 most likely)
pub fn object_map(t: &mut Tape, nl_in: usize, nl_out: usize, maxlen: usize) -> Vec<Vec<u32>> {
    (0..nl_in)
        .map(|_| {
            let len = match t.weighted(&[4, 2, 3, 1]) {
                0 => 1,
                1 => 0,
                2 => 2,
                _ => 3,
            }
            .min(maxlen);
            (0..len).map(|_| t.choice(nl_out) as u32).collect()
        })
        .collect()
}

/// image of one operation: a diagram of the given boundary type
pub fn op_image(
    t: &mut Tape,
    al: Alpha,
    src: &[u32],
    tgt: &[u32],
    ctx: &mut Ctx,
) -> Diagram {
    match t.weighted(&[4, 3, 1]) {
        // a single operation
        0 => Diagram::singleton(t.choice(al.el) as u32, src, tgt),
        // arbitrary small diagram (composite, non-monogamous, possibly without edges)
        1 => {
            let sz = if ctx.tier == crate::engine::Tier::Thorough {
                Sizes { nodes: 4, edges: 3, arity: 3, ..small_sizes() }
            } else {
                small_sizes()
            };
            diagram_with_boundary(t, &sz, al, src, tgt, ctx)
        }
        // spider only
        _ => {
            let mut d = Diagram::empty();
            with_source_type(t, &mut d, src);
            with_target_type(t, &mut d, tgt);
            d
        }
    }
}

pub fn functor_table(
    t: &mut Tape,
    al_in: Alpha,
    al_out: Alpha,
    keys: &BTreeSet<OpKey>,
    ctx: &mut Ctx,
) -> TableFunctor {
    let obj = object_map(t, al_in.nl, al_out.nl, 3);
    let mut f = TableFunctor {
        obj,
        ops: BTreeMap::new(),
    };
    for k in keys {
        let a = f.objects(&k.1);
        let b = f.objects(&k.2);
        let img = op_image(t, al_out, &a, &b, ctx);
        f.ops.insert(k.clone(), img);
    }
    f
}

pub fn optic_table(
    t: &mut Tape,
    al_in: Alpha,
    al_out: Alpha,
    keys: &BTreeSet<OpKey>,
    ctx: &mut Ctx,
) -> OpticTable {
    let fobj = object_map(t, al_in.nl, al_out.nl, 2);
    let robj = object_map(t, al_in.nl, al_out.nl, 2);
    let mut o = OpticTable {
        fwd: TableFunctor {
            obj: fobj,
            ops: BTreeMap::new(),
        },
        rev: TableFunctor {
            obj: robj,
            ops: BTreeMap::new(),
        },
        residual: BTreeMap::new(),
    };
    for k in keys {
        let m: Vec<u32> = (0..t.choice(3)).map(|_| t.choice(al_out.nl) as u32).collect();
        let fa = o.fwd.objects(&k.1);
        let mut fbm = o.fwd.objects(&k.2);
        fbm.extend_from_slice(&m);
        let mut mrb = m.clone();
        mrb.extend(o.rev.objects(&k.2));
        let ra = o.rev.objects(&k.1);
        let fwd = op_image(t, al_out, &fa, &fbm, ctx);
        let rev = op_image(t, al_out, &mrb, &ra, ctx);
        o.fwd.ops.insert(k.clone(), fwd);
        o.rev.ops.insert(k.clone(), rev);
        o.residual.insert(k.clone(), m);
    }
    o
}

// ------------------------------------------------------------------------------------------
// circuits with semantics (C14, C16, C19)

/// an operation of a test signature: label, number of inputs, number of outputs
#[derive(Clone, Copy, Debug)]
pub struct OpSpec {
    pub label: u32,
    pub ins: usize,
    pub outs: usize,
}

/// monogamous acyclic circuit over `sig` with `nin` inputs, built wire by wire: every wire is
/// consumed exactly once, the remaining wires become outputs in random order; numbering of
/// nodes and edges is then permuted.  Single node label 0.
pub fn monogamous_circuit(t: &mut Tape, sig: &[OpSpec], nin: usize, nops: usize) -> Diagram {
    let mut d = Diagram::empty();
    let mut live: Vec<usize> = vec![];
    for _ in 0..nin {
        d.nodes.push(0);
        live.push(d.nodes.len() - 1);
    }
    d.s = live.clone();
    for _ in 0..nops {
        // operations whose inputs can be served
        let cands: Vec<&OpSpec> = sig.iter().filter(|o| o.ins <= live.len()).collect();
        if cands.is_empty() {
            break;
        }
        let op = **t.pick(&cands);
        let mut src = vec![];
        for _ in 0..op.ins {
            let i = t.choice(live.len());
            src.push(live.remove(i));
        }
        let mut tgt = vec![];
        for _ in 0..op.outs {
            d.nodes.push(0);
            tgt.push(d.nodes.len() - 1);
        }
        // new wires are inserted at random positions among the live wires
        for &v in &tgt {
            let i = t.choice(live.len() + 1);
            live.insert(i, v);
        }
        d.edges.push(Edge {
            label: op.label,
            src,
            tgt,
        });
    }
    d.t = live;
    let np = t.permutation(d.nodes.len());
    let ep = t.permutation(d.edges.len());
    d.renumber(&np, &ep)
}

/// write-once DAG: every node is written at most once (by one input position or one target
/// position); fan-out and repeated reads allowed; every node that is read has been written.
pub fn write_once_dag(t: &mut Tape, sig: &[OpSpec], nin: usize, nops: usize, nout: usize) -> Diagram {
    write_once_dag_shaped(t, sig, nin, nops, nout, false)
}

/// `flat`: most operations read the inputs only, so that one layer holds most of the operations
pub fn write_once_dag_shaped(t: &mut Tape, sig: &[OpSpec], nin: usize, nops: usize, nout: usize, flat: bool) -> Diagram {
    let mut d = Diagram::empty();
    let mut written: Vec<usize> = vec![];
    for _ in 0..nin {
        d.nodes.push(0);
        written.push(d.nodes.len() - 1);
    }
    d.s = written.clone();
    for _ in 0..nops {
        let cands: Vec<&OpSpec> = sig
            .iter()
            .filter(|o| o.ins == 0 || !written.is_empty())
            .collect();
        if cands.is_empty() {
            break;
        }
        let op = **t.pick(&cands);
        let from_inputs = flat && nin > 0 && !t.chance(1, 16);
        let src: Vec<usize> = (0..op.ins).map(|_| if from_inputs { written[t.choice(nin)] } else { *t.pick(&written) }).collect();
        let mut tgt = vec![];
        for _ in 0..op.outs {
            d.nodes.push(0);
            tgt.push(d.nodes.len() - 1);
        }
        written.extend(tgt.iter().copied());
        d.edges.push(Edge {
            label: op.label,
            src,
            tgt,
        });
    }
    if !written.is_empty() {
        d.t = (0..nout).map(|_| *t.pick(&written)).collect();
    }
    let np = t.permutation(d.nodes.len());
    let ep = t.permutation(d.edges.len());
    d.renumber(&np, &ep)
}

// ------------------------------------------------------------------------------------------
// union-find stress shapes

/// Pairs over `2^k` elements merged level by level (blocks of size 1, 2, 4, ...), so that a
/// union-by-rank forest becomes as deep as it can (rank k).  Each union joins two blocks of equal
/// size through a representative of each: either a tracked "first-side root" (keeps the forest
/// uncompressed) or a random member.  The elements are renamed by a random permutation.
pub fn tournament_pairs(t: &mut Tape, k: usize) -> (usize, Vec<(usize, usize)>) {
    let n = 1usize << k;
    let perm = t.permutation(n);
    let via_roots = t.chance(2, 3);
    // root[b] = the element that stays root if ties attach the second argument under the first
    let mut root: Vec<usize> = (0..n).collect();
    let mut pairs = vec![];
    let mut size = 1;
    while size < n {
        let mut level = vec![];
        for b in (0..n).step_by(2 * size) {
            let (lo, hi) = (b, b + size);
            let flip = t.chance(1, 2);
            let (x, y) = if flip { (hi, lo) } else { (lo, hi) };
            let (mx, my) = if via_roots {
                (root[x], root[y])
            } else {
                (x + t.choice(size), y + t.choice(size))
            };
            level.push((mx, my));
            let r = root[x];
            root[lo] = r;
            root[hi] = r;
        }
        if t.chance(1, 2) {
            let p = t.permutation(level.len());
            let l2: Vec<(usize, usize)> = p.iter().map(|&i| level[i]).collect();
            level = l2;
        }
        pairs.extend(level);
        size *= 2;
    }
    (n, pairs.into_iter().map(|(a, b)| (perm[a], perm[b])).collect())
}

/// a long chain / caterpillar of pairs (adversarial orders for union-find without rank)
pub fn chain_pairs(n: usize, shape: usize) -> Vec<(usize, usize)> {
    match shape {
        // fresh node on the left: (i+1, i)
        0 => (0..n.saturating_sub(1)).map(|i| (i + 1, i)).collect(),
        // fresh node on the right: (i, i+1)
        1 => (0..n.saturating_sub(1)).map(|i| (i, i + 1)).collect(),
        // caterpillar: (2k, 2k+1), (2k+1, 2k-2)
        _ => {
            let mut v = vec![];
            let mut k = 0;
            while 2 * k + 1 < n {
                v.push((2 * k, 2 * k + 1));
                if k > 0 {
                    v.push((2 * k + 1, 2 * k - 2));
                }
                k += 1;
            }
            v
        }
    }
}

/// Bipartite version for composition: 2^k "left" nodes and 2^k "right" nodes, boundary pairs
/// (left node, right node) in a balanced merge order, so that the gluing f.t[i] ~ g.s[i] builds a
/// deep union-find forest.  Returns (number of left nodes, number of right nodes, f.t, g.s).
pub fn tournament_boundary(t: &mut Tape, k: usize) -> (usize, usize, Vec<usize>, Vec<usize>) {
    let n = 1usize << k;
    let pl = t.permutation(n);
    let pr = t.permutation(n);
    // block b (initially {L_b, R_b}); rep_l[b] = a left member used as "root side" representative
    let mut ft = vec![];
    let mut gs = vec![];
    for b in 0..n {
        ft.push(b);
        gs.push(b);
    }
    let mut rep: Vec<usize> = (0..n).collect(); // left representative of the block starting at b
    let mut size = 1;
    while size < n {
        for b in (0..n).step_by(2 * size) {
            let (lo, hi) = (b, b + size);
            let flip = t.chance(1, 2);
            let (x, y) = if flip { (hi, lo) } else { (lo, hi) };
            // left representative of x's block, a right member of y's block
            let u = if t.chance(2, 3) { rep[x] } else { x + t.choice(size) };
            let v = if t.chance(2, 3) { rep[y] } else { y + t.choice(size) };
            ft.push(u);
            gs.push(v);
            let r = rep[x];
            rep[lo] = r;
            rep[hi] = r;
        }
        size *= 2;
    }
    (n, n, ft.into_iter().map(|a| pl[a]).collect(), gs.into_iter().map(|a| pr[a]).collect())
}
