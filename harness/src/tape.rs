//! Choice tape: every random decision a generator makes is read from a `&[u32]`.
//!
//! The mapping from words to choices is monotone (`word * n >> 32`), so a smaller word is a
//! "smaller" choice and the word 0 always selects the first (simplest) alternative.  An
//! exhausted tape yields zeros, i.e. the smallest structure (medium-size cases, which need far
//! more choices than a tape holds, continue with a sequence computed from the tape's own words
//! instead).  No other source of randomness exists inside a property.

#[derive(Clone, Debug)]
pub struct Tape<'a> {
    words: &'a [u32],
    pos: usize,
    /// `Some(state)`: an exhausted tape continues with a sequence derived from its own content
    /// (medium-size cases need more choices than a tape holds); `None`: it continues with zeros
    ext: Option<u64>,
}

/// medium-size cases are selected by the first word of the tape (about one tape in 311)
pub fn is_medium(words: &[u32]) -> bool {
    // OHV_NO_MEDIUM=1 switches medium cases off (experiments only; like OHV_NO_CORPUS)
    static OFF: std::sync::OnceLock<bool> = std::sync::OnceLock::new();
    if *OFF.get_or_init(|| std::env::var_os("OHV_NO_MEDIUM").is_some()) {
        return false;
    }
    words.first().map_or(false, |w| w % 311 == 7)
}

impl<'a> Tape<'a> {
    pub fn new(words: &'a [u32]) -> Self {
        Tape { words, pos: 0, ext: None }
    }

    /// a tape that does not run dry: past its end it yields a splitmix64 sequence seeded with a
    /// hash of its words, so the whole case remains a pure function of the tape
    pub fn extended(words: &'a [u32]) -> Self {
        let mut h: u64 = 0x9E37_79B9_7F4A_7C15;
        for &w in words {
            h = (h ^ w as u64).wrapping_mul(0x100_0000_01B3).rotate_left(23);
        }
        Tape { words, pos: 0, ext: Some(h) }
    }

    /// number of words consumed so far (may exceed the tape length)
    pub fn consumed(&self) -> usize {
        self.pos
    }

    pub fn exhausted(&self) -> bool {
        self.pos >= self.words.len()
    }

    #[inline]
    pub fn word(&mut self) -> u32 {
        let w = match self.words.get(self.pos) {
            Some(&w) => w,
            None => match self.ext.as_mut() {
                None => 0,
                Some(st) => {
                    *st = st.wrapping_add(0x9E37_79B9_7F4A_7C15);
                    let mut z = *st;
                    z = (z ^ (z >> 30)).wrapping_mul(0xBF58_476D_1CE4_E5B9);
                    z = (z ^ (z >> 27)).wrapping_mul(0x94D0_49BB_1331_11EB);
                    ((z ^ (z >> 31)) >> 32) as u32
                }
            },
        };
        self.pos += 1;
        w
    }

    /// uniform choice in `0..n` (n == 0 is treated as 1)
    #[inline]
    pub fn choice(&mut self, n: usize) -> usize {
        if n <= 1 {
            // still consume a word: keeps the tape layout independent of sizes, which
            // makes shrinking more predictable.
            self.word();
            return 0;
        }
        ((self.word() as u64 * n as u64) >> 32) as usize
    }

    /// uniform choice in `lo..=hi`
    #[inline]
    pub fn range(&mut self, lo: usize, hi: usize) -> usize {
        debug_assert!(lo <= hi);
        lo + self.choice(hi - lo + 1)
    }

    /// true with probability num/den (false for word 0 unless num>=den)
    #[inline]
    pub fn chance(&mut self, num: usize, den: usize) -> bool {
        // word 0 => false (the "simple" outcome) ; high words => true
        let c = self.choice(den);
        c >= den - num.min(den)
    }

    /// weighted choice; index 0 is the simplest alternative
    pub fn weighted(&mut self, weights: &[usize]) -> usize {
        let total: usize = weights.iter().sum();
        let mut c = self.choice(total.max(1));
        for (i, w) in weights.iter().enumerate() {
            if c < *w {
                return i;
            }
            c -= *w;
        }
        weights.len().saturating_sub(1)
    }

    pub fn u64(&mut self) -> u64 {
        let a = self.word() as u64;
        let b = self.word() as u64;
        (a << 32) | b
    }

    /// small biased value: mostly small numbers, sometimes large ones
    pub fn small_u64(&mut self) -> u64 {
        match self.choice(4) {
            0 => self.choice(4) as u64,
            1 => self.choice(16) as u64,
            2 => u64::MAX - self.choice(4) as u64,
            _ => self.u64(),
        }
    }

    /// pick an element of a non-empty slice
    pub fn pick<'b, T>(&mut self, xs: &'b [T]) -> &'b T {
        &xs[self.choice(xs.len())]
    }

    /// a random permutation of 0..n (Fisher-Yates driven by the tape; all-zero words give identity)
    pub fn permutation(&mut self, n: usize) -> Vec<usize> {
        let mut p: Vec<usize> = (0..n).collect();
        for i in 0..n {
            let j = i + self.choice(n - i);
            p.swap(i, j);
        }
        p
    }
}

/// text form of a tape (replay files)
pub fn tape_to_string(words: &[u32]) -> String {
    words
        .iter()
        .map(|w| w.to_string())
        .collect::<Vec<_>>()
        .join(" ")
}

pub fn tape_from_str(s: &str) -> Option<Vec<u32>> {
    s.split_whitespace().map(|w| w.parse().ok()).collect()
}

/// decode fuzzer bytes into tape words.
///
/// Each word is encoded in 2 bytes (hi, lo) -> word = (hi<<24)|(lo<<16)|0x8000: coarse
/// (16 bit) choices are enough for every `choice(n)` with n < 65536 and keep libFuzzer's
/// byte-level mutations meaningful (one byte flip = one choice changes).
pub fn tape_from_bytes(bytes: &[u8]) -> Vec<u32> {
    bytes
        .chunks(2)
        .map(|c| {
            let hi = c[0] as u32;
            let lo = *c.get(1).unwrap_or(&0) as u32;
            if hi == 0 && lo == 0 {
                0
            } else {
                (hi << 24) | (lo << 16) | 0x8000
            }
        })
        .collect()
}

pub fn tape_to_bytes(words: &[u32]) -> Vec<u8> {
    let mut out = Vec::with_capacity(words.len() * 2);
    for w in words {
        out.push((w >> 24) as u8);
        out.push((w >> 16) as u8);
    }
    out
}
