//! Functors and optics given by tables, and their *definition* evaluated on the plain model:
//! generator-wise substitution (C12/C13) and the optic image (C14).

use crate::model::Diagram;
use std::collections::BTreeMap;

pub type OpKey = (u32, Vec<u32>, Vec<u32>);

/// Prefix of a panic message by which the engine recognises a violation that can only be observed
/// deep inside harness glue (a callback called with arguments the library had no right to pass, a
/// checked constructor rejecting well-formed data): `library-violation:<sub_check>: <text>`.
pub const LIB_VIOLATION: &str = "library-violation:";
pub const CALLBACK_VIOLATION: &str = "library-violation:callback-arguments:";
pub const CONSTRUCTOR_VIOLATION: &str = "library-violation:constructor-accepts-well-formed:";

#[derive(Clone, Debug, Default)]
pub struct TableFunctor {
    /// object map: node label -> list of labels
    pub obj: Vec<Vec<u32>>,
    /// operation map: (edge label, source type, target type) -> diagram of type F(src) -> F(tgt)
    pub ops: BTreeMap<OpKey, Diagram>,
}

impl TableFunctor {
    pub fn object(&self, l: u32) -> &[u32] {
        &self.obj[l as usize]
    }
    pub fn objects(&self, ls: &[u32]) -> Vec<u32> {
        ls.iter().flat_map(|&l| self.object(l).iter().copied()).collect()
    }
    pub fn operation(&self, l: u32, a: &[u32], b: &[u32]) -> Diagram {
        self.ops
            .get(&(l, a.to_vec(), b.to_vec()))
            .unwrap_or_else(|| panic!("harness: functor table has no image for {l} {a:?}->{b:?}"))
            .clone()
    }
    /// lookup on behalf of the *library* (inside a functor/optic callback): the library may only
    /// ask for the image of an operation together with the source and target types it has in the
    /// diagram; anything else is reported as a violation (`callback-arguments`), not as a harness error
    pub fn operation_cb(&self, l: u32, a: &[u32], b: &[u32]) -> Diagram {
        self.ops
            .get(&(l, a.to_vec(), b.to_vec()))
            .unwrap_or_else(|| panic!("{CALLBACK_VIOLATION} the library asked the functor for the image of operation {l} : {a:?} -> {b:?}, which is not an operation (with these types) of the diagram it was applied to"))
            .clone()
    }
    pub fn pretty(&self) -> String {
        let mut s = format!("obj{:?} ops{{", self.obj);
        for (k, v) in &self.ops {
            s.push_str(&format!(" {}:{:?}->{:?} => [{}];", k.0, k.1, k.2, v.pretty()));
        }
        s.push('}');
        s
    }
}

#[derive(Clone, Debug, Default)]
pub struct OpticTable {
    pub fwd: TableFunctor,
    pub rev: TableFunctor,
    pub residual: BTreeMap<OpKey, Vec<u32>>,
}

impl OpticTable {
    pub fn pretty(&self) -> String {
        format!(
            "fwd[{}] rev[{}] residual{:?}",
            self.fwd.pretty(),
            self.rev.pretty(),
            self.residual
        )
    }
}

/// offsets of per-node blocks
fn blocks(d: &Diagram, size: impl Fn(u32) -> usize) -> (Vec<usize>, usize) {
    let mut off = Vec::with_capacity(d.nodes.len());
    let mut p = 0;
    for &l in &d.nodes {
        off.push(p);
        p += size(l);
    }
    (off, p)
}

fn expand(list: &[usize], off: &[usize], len: impl Fn(usize) -> usize) -> Vec<usize> {
    let mut out = vec![];
    for &v in list {
        for k in 0..len(v) {
            out.push(off[v] + k);
        }
    }
    out
}

/// F(d) by the definition: every node labelled A becomes the nodes F(A), every hyperedge the
/// image of its operation glued along the expanded lists, interfaces expanded.
pub fn substitute(d: &Diagram, f: &TableFunctor) -> Diagram {
    let (off, total) = blocks(d, |l| f.object(l).len());
    let len = |v: usize| f.object(d.nodes[v]).len();
    let mut out = Diagram {
        nodes: Vec::with_capacity(total),
        edges: vec![],
        s: expand(&d.s, &off, len),
        t: expand(&d.t, &off, len),
    };
    for &l in &d.nodes {
        out.nodes.extend_from_slice(f.object(l));
    }
    let mut pairs = vec![];
    for e in &d.edges {
        let a: Vec<u32> = e.src.iter().map(|&v| d.nodes[v]).collect();
        let b: Vec<u32> = e.tgt.iter().map(|&v| d.nodes[v]).collect();
        let img = f.operation(e.label, &a, &b);
        let base = out.nodes.len();
        let es = expand(&e.src, &off, len);
        let et = expand(&e.tgt, &off, len);
        assert_eq!(img.s.len(), es.len(), "harness: functor image has wrong source arity");
        assert_eq!(img.t.len(), et.len(), "harness: functor image has wrong target arity");
        out.nodes.extend_from_slice(&img.nodes);
        for ie in &img.edges {
            out.edges.push(crate::model::Edge {
                label: ie.label,
                src: ie.src.iter().map(|&v| v + base).collect(),
                tgt: ie.tgt.iter().map(|&v| v + base).collect(),
            });
        }
        for (k, &v) in img.s.iter().enumerate() {
            pairs.push((v + base, es[k]));
        }
        for (k, &v) in img.t.iter().enumerate() {
            pairs.push((v + base, et[k]));
        }
    }
    out.glue(&pairs)
        .expect("harness: functor images are typed consistently with the object map")
        .0
}

/// The optic image by the definition, un-adapted and adapted.
///
/// Every node labelled A becomes the block F(A) ++ R(A).  For a hyperedge e : A -> B with
/// forward image fwd_e : F(A) -> F(B) ● M_e and reverse image rev_e : M_e ● R(B) -> R(A):
/// fwd_e's inputs are glued to the forward blocks of e's sources, its first outputs to the
/// forward blocks of e's targets, its residual outputs to rev_e's first inputs, rev_e's remaining
/// inputs to the reverse blocks of e's *targets* and rev_e's outputs to the reverse blocks of
/// e's *sources*.
pub fn optic_image(d: &Diagram, o: &OpticTable) -> (Diagram, Diagram) {
    let fl = |v: usize| o.fwd.object(d.nodes[v]).len();
    let rl = |v: usize| o.rev.object(d.nodes[v]).len();
    let (off, _total) = blocks(d, |l| o.fwd.object(l).len() + o.rev.object(l).len());
    let mut roff = off.clone();
    for v in 0..d.nodes.len() {
        roff[v] = off[v] + fl(v);
    }
    let both = |list: &[usize]| -> Vec<usize> {
        let mut out = vec![];
        for &v in list {
            for k in 0..fl(v) + rl(v) {
                out.push(off[v] + k);
            }
        }
        out
    };
    let mut out = Diagram {
        nodes: vec![],
        edges: vec![],
        s: both(&d.s),
        t: both(&d.t),
    };
    for &l in &d.nodes {
        out.nodes.extend_from_slice(o.fwd.object(l));
        out.nodes.extend_from_slice(o.rev.object(l));
    }
    let mut pairs = vec![];
    let append = |out: &mut Diagram, img: &Diagram| -> usize {
        let base = out.nodes.len();
        out.nodes.extend_from_slice(&img.nodes);
        for ie in &img.edges {
            out.edges.push(crate::model::Edge {
                label: ie.label,
                src: ie.src.iter().map(|&v| v + base).collect(),
                tgt: ie.tgt.iter().map(|&v| v + base).collect(),
            });
        }
        base
    };
    // the library tensors all forward images first, then all reverse images; edge order is
    // irrelevant up to isomorphism
    for e in &d.edges {
        let a: Vec<u32> = e.src.iter().map(|&v| d.nodes[v]).collect();
        let b: Vec<u32> = e.tgt.iter().map(|&v| d.nodes[v]).collect();
        let fwd = o.fwd.operation(e.label, &a, &b);
        let rev = o.rev.operation(e.label, &a, &b);
        let m = o
            .residual
            .get(&(e.label, a.clone(), b.clone()))
            .expect("harness: residual missing")
            .len();
        let fa = expand(&e.src, &off, fl);
        let fb = expand(&e.tgt, &off, fl);
        let ra = expand(&e.src, &roff, rl);
        let rb = expand(&e.tgt, &roff, rl);
        assert_eq!(fwd.s.len(), fa.len(), "harness: fwd image source arity");
        assert_eq!(fwd.t.len(), fb.len() + m, "harness: fwd image target arity");
        assert_eq!(rev.s.len(), m + rb.len(), "harness: rev image source arity");
        assert_eq!(rev.t.len(), ra.len(), "harness: rev image target arity");
        let bf = append(&mut out, &fwd);
        let br = append(&mut out, &rev);
        for (k, &v) in fwd.s.iter().enumerate() {
            pairs.push((v + bf, fa[k]));
        }
        for (k, &v) in fwd.t.iter().enumerate() {
            if k < fb.len() {
                pairs.push((v + bf, fb[k]));
            } else {
                pairs.push((v + bf, rev.s[k - fb.len()] + br));
            }
        }
        for k in 0..rb.len() {
            pairs.push((rev.s[m + k] + br, rb[k]));
        }
        for (k, &v) in rev.t.iter().enumerate() {
            pairs.push((v + br, ra[k]));
        }
    }
    // adapted interfaces, before gluing
    let fs = expand(&d.s, &off, fl);
    let ft = expand(&d.t, &off, fl);
    let rs = expand(&d.s, &roff, rl);
    let rt = expand(&d.t, &roff, rl);
    let (img, q) = out
        .glue(&pairs)
        .expect("harness: optic images are typed consistently with the object maps");
    let mut adapted = img.clone();
    adapted.s = fs.iter().chain(rt.iter()).map(|&v| q[v]).collect();
    adapted.t = ft.iter().chain(rs.iter()).map(|&v| q[v]).collect();
    (img, adapted)
}

/// interleave(F A, R A) as a type
pub fn optic_type(o: &OpticTable, a: &[u32]) -> Vec<u32> {
    let mut out = vec![];
    for &l in a {
        out.extend_from_slice(o.fwd.object(l));
        out.extend_from_slice(o.rev.object(l));
    }
    out
}
